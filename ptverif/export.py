"""pytato objects -> the JSON exchange format read by the TLA+ modules
(DESIGN appendix B).  Small integers and strings only.

The exporter never calls pytato's mappers: it walks dataclass fields
reflectively, so a defect in a mapper cannot hide a node from the
specification.
"""
from __future__ import annotations

import hashlib
import json
from fractions import Fraction
from typing import Any

import numpy as np

P = 10007
OFF = 1_000_000


class Unsupported(Exception):
    """The graph uses something the specification's semantics does not cover
    (counted and reported by the caller; never a verdict)."""


# --------------------------------------------------------------------------
# constants and function ids

_FUNCS = ["abs", "sqrt", "sin", "cos", "tan", "asin", "acos", "atan", "atan2",
          "sinh", "cosh", "tanh", "exp", "log", "log10", "isnan", "real", "imag",
          "conj", "floor", "ceil", "fabs", "fmod", "pow", "arctan2", "expm1",
          "log1p", "sign", "angle", "fmax", "fmin", "zero", "cbrt", "erf"]


def func_id(name: str) -> int:
    short = name.rsplit(".", 1)[-1]
    if short in _FUNCS:
        return 10 + 3 * _FUNCS.index(short)
    return 200 + int(hashlib.sha256(short.encode()).hexdigest(), 16) % 300


_DT = {"bool": "b1", "int8": "i1", "int16": "i2", "int32": "i4", "int64": "i8",
       "uint8": "u1", "uint16": "u2", "uint32": "u4", "uint64": "u8",
       "float32": "f4", "float64": "f8", "complex64": "c8", "complex128": "c16"}


def dt(dtype: Any) -> str:
    n = np.dtype(dtype).name
    return _DT.get(n, n)


def cast_id(dtype: Any) -> int:
    return 600 + sorted(_DT.values()).index(dt(dtype)) * 3 if dt(dtype) in _DT.values() \
        else 700


def residue_of_number(x: Any) -> int:
    """A ring homomorphism from the dyadic rationals into GF(P) (so that
    identities between constants survive), a hash for everything else."""
    if isinstance(x, (complex, np.complexfloating)):
        if x.imag == 0:
            return residue_of_number(x.real)
        h = hashlib.sha256(repr((float(x.real), float(x.imag))).encode()).hexdigest()
        return int(h, 16) % P
    xf = float(x)
    if xf != xf:
        return 4242
    if xf in (float("inf"), float("-inf")):
        return 4243 if xf > 0 else 4244
    fr = Fraction(xf)
    return (fr.numerator % P) * pow(fr.denominator % P, P - 2, P) % P


def const(x: Any) -> dict:
    if isinstance(x, (bool, np.bool_)):
        return {"k": "c", "v": int(x)}
    if isinstance(x, (int, np.integer)):
        x = int(x)
        if abs(x) < 30000:
            return {"k": "c", "v": x}
        return {"k": "cd", "v": x % P}
    if isinstance(x, (float, np.floating, complex, np.complexfloating)):
        xc = complex(x)
        if xc != xc:
            return {"k": "nan"}
        return {"k": "cd", "v": residue_of_number(x)}
    raise Unsupported(f"constant {x!r} of type {type(x).__name__}")


# --------------------------------------------------------------------------
# scalar expressions

_CMP = {"<": "lt", "<=": "le", ">": "gt", ">=": "ge", "==": "eq", "!=": "ne"}


def expr_to_json(e: Any, bindings: dict[str, Any]) -> dict:
    import re

    import pymbolic.primitives as prim

    from pytato.scalar_expr import Reduce, TypeCast

    def rec(e: Any) -> dict:
        if isinstance(e, prim.Variable):
            m = re.fullmatch(r"_(\d+)", e.name)
            if m and e.name not in bindings:
                return {"k": "ix", "d": int(m.group(1))}
            if e.name in bindings:
                if getattr(bindings[e.name], "ndim", 0) != 0:
                    raise Unsupported(f"bare reference to non-scalar binding {e.name}")
                return {"k": "bv", "n": e.name}
            return {"k": "rv", "n": e.name}
        if isinstance(e, prim.Subscript):
            if not isinstance(e.aggregate, prim.Variable):
                raise Unsupported("subscript of non-variable")
            return {"k": "sub", "a": e.aggregate.name,
                    "i": [rec(i) for i in e.index_tuple]}
        if isinstance(e, prim.Sum):
            return {"k": "add", "c": [rec(c) for c in e.children]}
        if isinstance(e, prim.Product):
            return {"k": "mul", "c": [rec(c) for c in e.children]}
        if isinstance(e, prim.Quotient):
            return {"k": "quot", "a": rec(e.numerator), "b": rec(e.denominator)}
        if isinstance(e, prim.FloorDiv):
            return {"k": "fdiv", "a": rec(e.numerator), "b": rec(e.denominator)}
        if isinstance(e, prim.Remainder):
            return {"k": "mod", "a": rec(e.numerator), "b": rec(e.denominator)}
        if isinstance(e, prim.Power):
            return {"k": "pow", "a": rec(e.base), "b": rec(e.exponent)}
        if isinstance(e, prim.Comparison):
            return {"k": "cmp", "op": _CMP[e.operator], "a": rec(e.left),
                    "b": rec(e.right)}
        if isinstance(e, prim.LogicalAnd):
            return {"k": "and", "c": [rec(c) for c in e.children]}
        if isinstance(e, prim.LogicalOr):
            return {"k": "or", "c": [rec(c) for c in e.children]}
        if isinstance(e, prim.LogicalNot):
            return {"k": "not", "a": rec(e.child)}
        if isinstance(e, prim.BitwiseAnd):
            return {"k": "band", "c": [rec(c) for c in e.children]}
        if isinstance(e, prim.BitwiseOr):
            return {"k": "bor", "c": [rec(c) for c in e.children]}
        if isinstance(e, prim.BitwiseXor):
            return {"k": "bxor", "c": [rec(c) for c in e.children]}
        if isinstance(e, prim.Max):
            return {"k": "max", "c": [rec(c) for c in e.children]}
        if isinstance(e, prim.Min):
            return {"k": "min", "c": [rec(c) for c in e.children]}
        if isinstance(e, prim.If):
            return {"k": "if", "c": rec(e.condition), "t": rec(e.then),
                    "e": rec(e.else_)}
        if isinstance(e, prim.Call):
            if not isinstance(e.function, prim.Variable):
                raise Unsupported("call of non-variable")
            if e.function.name == "pytato.zero":
                # documented meaning: zero, whatever the argument (a dependency only)
                return {"k": "c", "v": 0, "zero": True}
            return {"k": "call", "f": func_id(e.function.name),
                    "fn": e.function.name, "p": [rec(p) for p in e.parameters]}
        if isinstance(e, prim.NaN):
            return {"k": "nan"}
        if isinstance(e, TypeCast):
            return {"k": "cast", "f": cast_id(e.dtype), "dt": dt(e.dtype),
                    "a": rec(e.inner_expr)}
        if isinstance(e, Reduce):
            from pytato.reductions import (
                AllReductionOperation,
                AnyReductionOperation,
                MaxReductionOperation,
                MinReductionOperation,
                ProductReductionOperation,
                SumReductionOperation,
            )
            ops = {SumReductionOperation: "sum", ProductReductionOperation: "product",
                   MaxReductionOperation: "max", MinReductionOperation: "min",
                   AllReductionOperation: "all", AnyReductionOperation: "any"}
            if type(e.op) not in ops:
                raise Unsupported(f"reduction op {e.op}")
            return {"k": "red", "op": ops[type(e.op)],
                    "b": [{"v": v, "lo": rec(lo), "hi": rec(hi)}
                          for v, (lo, hi) in sorted(e.bounds.items())],
                    "a": rec(e.inner_expr)}
        if isinstance(e, prim.ExpressionNode):
            raise Unsupported(f"expression node {type(e).__name__}")
        return const(e)

    return rec(e)


# --------------------------------------------------------------------------
# graphs

def _meta(node: Any) -> dict:
    def tagl(tags: Any) -> list[str]:
        return sorted(repr(t) for t in tags)
    m = {"tags": tagl(getattr(node, "tags", ()))}
    axes = getattr(node, "axes", None)
    if axes is not None:
        m["axes"] = [tagl(ax.tags) for ax in axes]
    return m


def _shape(shape: Any) -> list[int]:
    out = []
    for s in shape:
        if not isinstance(s, (int, np.integer)):
            raise Unsupported("symbolic shape component")
        out.append(int(s))
    return out


def data_name(arr: np.ndarray) -> str:
    a = np.ascontiguousarray(arr)
    h = hashlib.sha256()
    h.update(str(a.dtype).encode())
    h.update(str(a.shape).encode())
    h.update(a.tobytes())
    return "_dw_" + h.hexdigest()[:10]


class Ref:
    """A reference to an earlier node position inside a node record under
    construction (so that a canonical, position-independent form exists)."""
    __slots__ = ("pos",)

    def __init__(self, pos: int) -> None:
        self.pos = pos


def _deref(o: Any) -> Any:
    if isinstance(o, Ref):
        return o.pos
    if isinstance(o, dict):
        return {k: _deref(v) for k, v in o.items()}
    if isinstance(o, (list, tuple)):
        return [_deref(v) for v in o]
    return o


def _all_refs(o: Any, acc: list[int]) -> None:
    """every child reference, with multiplicity, in field order"""
    if isinstance(o, Ref):
        acc.append(o.pos)
    elif isinstance(o, dict):
        for _k, v in sorted(o.items()):
            _all_refs(v, acc)
    elif isinstance(o, (list, tuple)):
        for v in o:
            _all_refs(v, acc)


def _canon(o: Any, order: list[int], strip_tags: bool) -> Any:
    """Node record with child positions replaced by the ordinal of their first
    occurrence; order collects the child positions in that order."""
    if isinstance(o, Ref):
        if o.pos not in order:
            order.append(o.pos)
        return f"#{order.index(o.pos)}"
    if isinstance(o, dict):
        return {k: _canon(v, order, strip_tags) for k, v in sorted(o.items())
                if not (strip_tags and k in ("meta", "rd", "rdtags"))}
    if isinstance(o, (list, tuple)):
        return [_canon(v, order, strip_tags) for v in o]
    return o


class GraphExporter:
    """Exports one root (Array or DictOfNamedArrays-like) to a graph record
    and collects the inputs that need a valuation."""

    def __init__(self) -> None:
        self.nodes: list[dict] = []
        self.pos: dict[int, int] = {}
        self.keep: list[Any] = []          # keep objects alive (ids stay unique)
        self.inputs: dict[str, dict] = {}
        self.funcs: list[dict] = []
        self.func_pos: dict[int, int] = {}
        self.data_objs: dict[int, int] = {}
        self.data_bufs: dict[Any, int] = {}

    # -- inputs
    def _add_input(self, name: str, info: dict) -> None:
        old = self.inputs.get(name)
        if old is not None and (old["shape"], old["dtype"]) != (info["shape"], info["dtype"]):
            raise Unsupported(f"two inputs named {name} with different type")
        if old is None:
            self.inputs[name] = info

    def _r(self, x: Any) -> Ref:
        return Ref(self.rec(x))

    def rec(self, x: Any) -> int:
        """-> 1-based position of array *x* in self.nodes"""
        from pytato.array import (
            AdvancedIndexInContiguousAxes,
            AdvancedIndexInNoncontiguousAxes,
            Array,
            AxisPermutation,
            BasicIndex,
            Concatenate,
            CSRMatmul,
            DataWrapper,
            DictOfNamedArrays,
            Einsum,
            EinsumElementwiseAxis,
            IndexLambda,
            NamedArray,
            NormalizedSlice,
            Placeholder,
            Reshape,
            Roll,
            SizeParam,
            Stack,
        )
        from pytato.distributed.nodes import DistributedRecv, DistributedSendRefHolder
        from pytato.function import Call, NamedCallResult

        if id(x) in self.pos:
            return self.pos[id(x)]
        if not isinstance(x, Array):
            raise Unsupported(f"not an array: {type(x).__name__}")
        nd: dict[str, Any]
        if isinstance(x, Placeholder):
            nd = {"kind": "in", "name": x.name, "src": "ph"}
            self._add_input(x.name, {"shape": _shape(x.shape), "dtype": dt(x.dtype),
                                     "src": "ph"})
        elif isinstance(x, SizeParam):
            nd = {"kind": "in", "name": x.name, "src": "sp"}
            self._add_input(x.name, {"shape": [], "dtype": dt(x.dtype), "src": "sp"})
        elif isinstance(x, DataWrapper):
            data = np.asarray(x.data)
            name = data_name(data)
            nd = {"kind": "in", "name": name, "src": "dw"}
            self._add_input(name, {"shape": _shape(x.shape), "dtype": dt(x.dtype),
                                   "src": "dw", "data": data})
        elif isinstance(x, DistributedRecv):
            name = f"_recv_{x.src_rank}_{x.comm_tag!r}"
            nd = {"kind": "in", "name": name, "src": "recv"}
            self._add_input(name, {"shape": _shape(x.shape), "dtype": dt(x.dtype),
                                   "src": "recv"})
        elif isinstance(x, IndexLambda):
            bind = {k: self._r(v) for k, v in sorted(x.bindings.items())}
            nd = {"kind": "il", "expr": expr_to_json(x.expr, dict(x.bindings)),
                  "bind": bind,
                  "rd": {k: sorted(repr(t) for t in v.tags)
                         for k, v in sorted(x.var_to_reduction_descr.items())}}
        elif isinstance(x, Stack):
            nd = {"kind": "stack", "arrays": [self._r(a) for a in x.arrays],
                  "axis": x.axis}
        elif isinstance(x, Concatenate):
            nd = {"kind": "concat", "arrays": [self._r(a) for a in x.arrays],
                  "axis": x.axis}
        elif isinstance(x, Roll):
            nd = {"kind": "roll", "a": self._r(x.array), "shift": int(x.shift),
                  "axis": x.axis}
        elif isinstance(x, AxisPermutation):
            nd = {"kind": "perm", "a": self._r(x.array),
                  "perm": [int(p) for p in x.axis_permutation]}
        elif isinstance(x, Reshape):
            nd = {"kind": "reshape", "a": self._r(x.array), "order": x.order,
                  "newshape": _shape(x.newshape)}
        elif isinstance(x, (BasicIndex, AdvancedIndexInContiguousAxes,
                            AdvancedIndexInNoncontiguousAxes)):
            items = []
            for i in x.indices:
                if isinstance(i, (int, np.integer)):
                    items.append({"t": "int", "v": int(i)})
                elif isinstance(i, NormalizedSlice):
                    for c in (i.start, i.stop, i.step):
                        if not isinstance(c, (int, np.integer)):
                            raise Unsupported("symbolic slice")
                    items.append({"t": "nslice", "start": int(i.start),
                                  "stop": int(i.stop), "step": int(i.step)})
                elif isinstance(i, Array):
                    items.append({"t": "arr", "n": self._r(i)})
                else:
                    raise Unsupported(f"index item {i!r}")
            nd = {"kind": "index", "a": self._r(x.array), "idx": items,
                  "cls": type(x).__name__}
        elif isinstance(x, Einsum):
            args = [self._r(a) for a in x.args]
            rdims = sorted({d.dim for acc in x.access_descriptors for d in acc
                            if not isinstance(d, EinsumElementwiseAxis)})
            if rdims != list(range(len(rdims))):
                raise Unsupported("non-dense einsum reduction dims")
            nd = {"kind": "einsum", "args": args, "nred": len(rdims),
                  "acc": [[{"t": "e" if isinstance(d, EinsumElementwiseAxis) else "r",
                            "d": d.dim} for d in acc]
                          for acc in x.access_descriptors],
                  "rd": sorted((repr(k), sorted(repr(t) for t in v.tags))
                               for k, v in x.redn_axis_to_redn_descr.items())}
        elif isinstance(x, CSRMatmul):
            m = x.matrix
            nd = {"kind": "csr", "data": self._r(m.elem_values),
                  "cols": self._r(m.elem_col_indices),
                  "rows": self._r(m.row_starts), "x": self._r(x.array),
                  "mshape": _shape(m.shape)}
        elif isinstance(x, NamedCallResult):
            call = x._container
            assert isinstance(call, Call)
            fi = self.func(call.function)
            nd = {"kind": "ncr", "fn": fi, "name": x.name,
                  "bind": {k: self._r(v) for k, v in sorted(call.bindings.items())}}
        elif isinstance(x, NamedArray):
            cont = x._container
            if isinstance(cont, DictOfNamedArrays):
                nd = {"kind": "alias", "a": self._r(cont._data[x.name])}
            elif type(cont).__name__ == "LoopyCall":
                # a result of a call to a loopy kernel: an UNINTERPRETED function
                # (identified by the kernel and the result's name) of all bound
                # arguments, in the order of their names
                knl = cont.translation_unit[cont.entrypoint]
                # (not by the kernel's NAME: preprocessing renames a callee whose name
                # collides with another kernel's, combine -> combine_0)
                ident = json.dumps([
                    sorted((a.name, str(getattr(a, "shape", None)), str(a.dtype),
                            bool(getattr(a, "is_output", False))) for a in knl.args),
                    sorted(str(i.assignees) + "=" + str(i.expression)
                           for i in knl.instructions),
                    sorted(str(d) for d in knl.domains)])
                kid = int(hashlib.sha256(ident.encode()).hexdigest()[:8], 16) % 1000
                outs = sorted(a.name for a in knl.args if getattr(a, "is_output", False))
                args = []
                for _k, v in sorted(cont.bindings.items()):
                    args.append({"n": self._r(v)} if isinstance(v, Array) else {"c": const(v)})
                nd = {"kind": "lpres", "knl": kid, "res": outs.index(x.name) + 1,
                      "args": args}
            else:
                raise Unsupported(f"named array of {type(cont).__name__}")
        elif isinstance(x, DistributedSendRefHolder):
            nd = {"kind": "alias", "a": self._r(x.passthrough_data),
                  "send": {"data": self._r(x.send.data), "dest": int(x.send.dest_rank),
                           "tag": repr(x.send.comm_tag)}}
        else:
            raise Unsupported(f"node kind {type(x).__name__}")
        nd["shape"] = _shape(x.shape)
        nd["dtype"] = dt(x.dtype)
        nd["meta"] = _meta(x)
        nd["cls"] = type(x).__name__
        if nd["kind"] == "in" and nd.get("src") == "dw":
            # DataWrapper equality is identity of the wrapped object
            nd["dobj"] = self.data_objs.setdefault(id(x.data), len(self.data_objs) + 1)
            d = x.data
            bkey = (d.__array_interface__["data"], d.shape, d.strides, str(d.dtype)) \
                if isinstance(d, np.ndarray) else ("obj", id(d))
            nd["dbuf"] = self.data_bufs.setdefault(bkey, len(self.data_bufs) + 1)
        order: list[int] = []
        loc = json.dumps(_canon(nd, order, False), sort_keys=True)
        order_nt: list[int] = []
        loc_nt = json.dumps(_canon(nd, order_nt, True), sort_keys=True)
        kidlist: list[int] = []
        _all_refs(nd, kidlist)
        nd = _deref(nd)
        nd["kidlist"] = kidlist
        nd["stored"] = any("ImplStored" in t for t in nd["meta"]["tags"])
        nd["implother"] = any("ImplInlined" in t or "ImplSubstitution" in t
                              for t in nd["meta"]["tags"])
        nd["loc"] = hashlib.sha256(loc.encode()).hexdigest()[:20]
        nd["kids"] = order
        nd["loc_nt"] = hashlib.sha256(loc_nt.encode()).hexdigest()[:20]
        nd["kids_nt"] = order_nt
        nd["zc"] = '"zero": true' in loc
        self.nodes.append(nd)
        self.keep.append(x)
        self.pos[id(x)] = len(self.nodes)
        return len(self.nodes)

    def func(self, fdef: Any) -> int:
        if id(fdef) in self.func_pos:
            return self.func_pos[id(fdef)]
        sub = GraphExporter()
        outs = [{"name": k, "node": sub.rec(v)} for k, v in sorted(fdef.returns.items())]
        if sub.funcs:
            # nested function tables are flattened by index offset: not needed
            # for evaluation because each body carries its own table
            pass
        body = {"nodes": sub.nodes, "outs": outs, "funcs": sub.funcs,
                "params": sorted(fdef.parameters)}
        for name, info in sub.inputs.items():
            if info["src"] == "ph" and name in fdef.parameters:
                continue
            # data wrappers / free inputs inside a body: need a valuation too
            self._add_input(name, info)
            body.setdefault("free", []).append(name)
        self.funcs.append(body)
        self.keep.append(fdef)
        self.func_pos[id(fdef)] = len(self.funcs)
        return len(self.funcs)

    def graph(self, outs: dict[str, Any]) -> dict:
        o = [{"name": k, "node": self.rec(v)} for k, v in outs.items()]
        return {"nodes": self.nodes, "outs": o, "funcs": self.funcs}


def roots_of(x: Any) -> dict[str, Any]:
    """An Array or a mapping name -> Array as an ordered dict of roots."""
    from pytato.array import Array, DictOfNamedArrays
    if isinstance(x, Array):
        return {"_out": x}
    if isinstance(x, DictOfNamedArrays):
        return {k: x._data[k] for k in x._data}
    if isinstance(x, dict):
        return dict(x)
    try:
        return {k: x[k] for k in x}      # AbstractResultWithNamedArrays
    except Exception as ex:
        raise Unsupported(f"cannot find roots of {type(x).__name__}") from ex


def export_graph(x: Any) -> tuple[dict, dict[str, dict]]:
    ge = GraphExporter()
    g = ge.graph(roots_of(x))
    return g, ge.inputs


# --------------------------------------------------------------------------
# valuations

def make_valuations(inputs: dict[str, dict], k: int, rng: np.random.Generator,
                    exact: dict[str, tuple[int, int]] | None = None,
                    ) -> list[dict[str, list[int]]]:
    """K valuations of the inputs as encoded values (flat, C order).

    * integer-typed data wrappers keep their real contents (exact);
    * bool inputs get exact 0/1;
    * inputs named in *exact* get exact integers in the given closed range
      (used for index arrays);
    * everything else gets residues that are pairwise distinct over ALL inputs
      of the valuation (an injective valuation)."""
    exact = exact or {}
    vals = []
    for _ in range(k):
        need = 0
        for name, info in inputs.items():
            need += int(np.prod(info["shape"], dtype=np.int64)) if info["shape"] else 1
        if need > P - 100:
            raise Unsupported("too many input elements for an injective valuation")
        pool = rng.permutation(np.arange(50, P))[:need].tolist()
        v: dict[str, list[int]] = {}
        for name in sorted(inputs):
            info = inputs[name]
            n = int(np.prod(info["shape"], dtype=np.int64)) if info["shape"] else 1
            kind = info["dtype"][0]
            if info["src"] == "dw" and kind in "iub":
                flat = np.asarray(info["data"]).reshape(-1).astype(np.int64)
                if n and (np.abs(flat) >= 30000).any():
                    raise Unsupported("large integer data")
                v[name] = [int(z) for z in flat]
            elif name in exact:
                lo, hi = exact[name]
                v[name] = [int(z) for z in rng.integers(lo, hi + 1, size=n)]
            elif kind == "b":
                v[name] = [int(z) for z in rng.integers(0, 2, size=n)]
            else:
                v[name] = [OFF + pool.pop() for _ in range(n)]
        vals.append(v)
    return vals


def strip_inputs(inputs: dict[str, dict]) -> dict[str, dict]:
    return {k: {kk: vv for kk, vv in v.items() if kk != "data"}
            for k, v in inputs.items()}
