"""Symbolic communication tags of several hashable types (importable, hence
picklable by reference / by value as MPI would need)."""
from __future__ import annotations

from dataclasses import dataclass
from typing import Any


class CommTag0: pass      # noqa: E701   bare classes used as tags (as grudge does)
class CommTag1: pass      # noqa: E701
class CommTag2: pass      # noqa: E701
class CommTag3: pass      # noqa: E701
class CommTag4: pass      # noqa: E701
class CommTag5: pass      # noqa: E701
class CommTag6: pass      # noqa: E701
class CommTag7: pass      # noqa: E701
class CommTag8: pass      # noqa: E701
class CommTag9: pass      # noqa: E701


CLASSES = [CommTag0, CommTag1, CommTag2, CommTag3, CommTag4,
           CommTag5, CommTag6, CommTag7, CommTag8, CommTag9]


@dataclass(frozen=True)
class DCTag:
    """A user-defined hashable tag (frozen dataclass with a nested tuple)."""
    n: int
    path: tuple = ("vol", "bdry")


KINDS = ("str", "int", "tuple", "frozenset", "class", "dataclass", "mixed")


def sym_tag(kind: str, t: int) -> Any:
    """The symbolic tag object for abstract tag number *t*."""
    if kind == "str":
        return f"t{t}"
    if kind == "int":
        return 1000 + t
    if kind == "tuple":
        return ("tag", t, (t, "x"))
    if kind == "frozenset":
        return frozenset({t, f"s{t}", ("k", t)})
    if kind == "class":
        return CLASSES[t % len(CLASSES)] if t < len(CLASSES) else (CLASSES[t % len(CLASSES)], t)
    if kind == "dataclass":
        return DCTag(t)
    if kind == "mixed":
        return sym_tag(KINDS[t % 6], t)
    raise ValueError(kind)


def tag_token(kind: str, t: int) -> str:
    """Stable, process-independent name of the symbolic tag (for JSON)."""
    return f"{kind}:{t}"
