"""loopy kernels (as produced by pytato's generate_loopy) -> JSON for the
PtKernel (instruction orders) and PtBounds (memory safety) modules."""
from __future__ import annotations

from typing import Any

import numpy as np


def kernel_structure(t_unit: Any) -> dict:
    """Instruction / dependency / variable structure of the entry kernel."""
    import loopy as lp
    knl = t_unit.default_entrypoint
    if knl.substitutions:
        # reads inside substitution rules belong to the invoking instructions
        knl = lp.expand_subst(knl)
    ids = sorted(insn.id for insn in knl.instructions)
    num = {i: k + 1 for k, i in enumerate(ids)}
    inputs = sorted(a.name for a in knl.args
                    if getattr(a, "is_input", True) and not getattr(a, "is_output", False))
    outputs = sorted(a.name for a in knl.args if getattr(a, "is_output", False))
    temps = sorted(knl.temporary_variables)
    insns = []
    dangling = []
    for insn in sorted(knl.instructions, key=lambda i: i.id):
        deps = []
        for d in sorted(insn.depends_on):
            if d in num:
                deps.append(num[d])
            else:
                dangling.append([insn.id, d])
        writes = sorted(insn.assignee_var_names()) if hasattr(insn, "assignee_var_names") \
            else []
        reads = sorted(v for v in insn.read_dependency_names()
                       if (v in knl.temporary_variables
                           and _nonempty(knl.temporary_variables[v].shape))
                       or (v in outputs and _nonempty(knl.arg_dict[v].shape)))
        insns.append({"id": insn.id, "n": num[insn.id], "deps": deps,
                      "writes": [w for w in writes], "reads": reads,
                      "within": sorted(insn.within_inames),
                      "noop": isinstance(insn, lp.NoOpInstruction)})
    return {"insns": insns, "inputs": inputs, "outputs": outputs, "temps": temps,
            "dangling": dangling,
            "nonempty_outputs": sorted(
                a.name for a in knl.args if getattr(a, "is_output", False)
                and _nonempty(a.shape))}


def _nonempty(shape: Any) -> bool:
    try:
        return 0 not in tuple(int(s) for s in shape)
    except TypeError:
        return True


# --------------------------------------------------------------------------
# access model for C11 (memory safety)

class Unsupported11(Exception):
    pass


def _mangle(name: str) -> str:
    import re
    return "v_" + re.sub(r"[^A-Za-z0-9]", "_", name)


def to_tla(e: Any, names: set[str]) -> str:
    """pymbolic integer expression -> TLA+ text; raises Unsupported11 for
    anything that is not (quasi-)affine integer arithmetic."""
    import pymbolic.primitives as p
    if isinstance(e, (bool, np.bool_)):
        return "TRUE" if e else "FALSE"
    if isinstance(e, (int, np.integer)):
        return f"({int(e)})"
    if isinstance(e, p.Variable):
        names.add(e.name)
        return _mangle(e.name)
    if isinstance(e, p.Sum):
        return "(" + " + ".join(to_tla(c, names) for c in e.children) + ")"
    if isinstance(e, p.Product):
        return "(" + " * ".join(to_tla(c, names) for c in e.children) + ")"
    if isinstance(e, (p.FloorDiv, p.Remainder)):
        num, den = to_tla(e.numerator, names), to_tla(e.denominator, names)
        if isinstance(e.denominator, (int, np.integer)) and int(e.denominator) <= 0:
            raise Unsupported11("non-positive constant divisor")
        op = "\\div" if isinstance(e, p.FloorDiv) else "%"
        return f"({num} {op} {den})"
    if isinstance(e, p.Comparison):
        op = {"==": "=", "!=": "#", "<": "<", "<=": "<=", ">": ">", ">=": ">="}[e.operator]
        return f"({to_tla(e.left, names)} {op} {to_tla(e.right, names)})"
    if isinstance(e, p.LogicalAnd):
        return "(" + " /\\ ".join(to_tla(c, names) for c in e.children) + ")"
    if isinstance(e, p.LogicalOr):
        return "(" + " \\/ ".join(to_tla(c, names) for c in e.children) + ")"
    if isinstance(e, p.LogicalNot):
        return f"(~{to_tla(e.child, names)})"
    if isinstance(e, p.If):
        return (f"(IF {to_tla(e.condition, names)} THEN {to_tla(e.then, names)} "
                f"ELSE {to_tla(e.else_, names)})")
    if isinstance(e, p.Min):
        a, b = (to_tla(c, names) for c in e.children)
        return f"(IF {a} <= {b} THEN {a} ELSE {b})"
    if isinstance(e, p.Max):
        a, b = (to_tla(c, names) for c in e.children)
        return f"(IF {a} >= {b} THEN {a} ELSE {b})"
    raise Unsupported11(type(e).__name__)


def to_tla_bool(e: Any, names: set[str]) -> str:
    """A guard as TLA+ text; raises Unsupported11 unless it is a boolean
    combination of integer comparisons (a bare variable or a subscript as
    condition is DATA: `where(flag, ...)`)."""
    import pymbolic.primitives as p
    if isinstance(e, (bool, np.bool_)):
        return "TRUE" if e else "FALSE"
    if isinstance(e, p.Comparison):
        return to_tla(e, names)
    if isinstance(e, p.LogicalAnd):
        return "(" + " /\\ ".join(to_tla_bool(c, names) for c in e.children) + ")"
    if isinstance(e, p.LogicalOr):
        return "(" + " \\/ ".join(to_tla_bool(c, names) for c in e.children) + ")"
    if isinstance(e, p.LogicalNot):
        return f"(~{to_tla_bool(e.child, names)})"
    raise Unsupported11("data-dependent guard")


def divisors_of(e: Any) -> list[Any]:
    """non-constant divisors of floor-div / modulo inside e (must be > 0)"""
    import pymbolic.primitives as p
    out: list[Any] = []

    def walk(x: Any) -> None:
        if isinstance(x, (p.FloorDiv, p.Remainder)):
            if not isinstance(x.denominator, (int, np.integer)):
                out.append(x.denominator)
            walk(x.numerator)
            walk(x.denominator)
        elif isinstance(x, (p.Sum, p.Product, p.LogicalAnd, p.LogicalOr, p.Min, p.Max)):
            for c in x.children:
                walk(c)
        elif isinstance(x, p.Comparison):
            walk(x.left)
            walk(x.right)
        elif isinstance(x, p.If):
            walk(x.condition)
            walk(x.then)
            walk(x.else_)
        elif isinstance(x, p.LogicalNot):
            walk(x.child)
    walk(e)
    return out


def access_model(t_unit: Any, kid: str) -> dict:
    """Every array access of the kernel with its index expressions, the extent
    of the accessed array, the guard context (conditions of enclosing If
    branches) and the iteration domain, as TLA+ text.  Data-dependent index
    components are skipped (the caller's responsibility, as documented)."""
    import loopy as lp
    import pymbolic.primitives as p
    from loopy.symbolic import Reduction, constraint_to_cond_expr
    knl = t_unit.default_entrypoint
    if knl.substitutions:
        knl = lp.expand_subst(knl)
    shapes: dict[str, tuple] = {}
    for a in knl.args:
        if isinstance(a, lp.ArrayArg) and isinstance(a.shape, tuple):
            shapes[a.name] = a.shape
    for name, tv in knl.temporary_variables.items():
        if isinstance(tv.shape, tuple):
            shapes[name] = tv.shape
    params = sorted(a.name for a in knl.args if isinstance(a, lp.ValueArg))
    # single-assignment scalar temporaries (reduction bounds)
    scalar_def: dict[str, Any] = {}
    writers: dict[str, int] = {}
    for insn in knl.instructions:
        for w in (insn.assignee_var_names() if hasattr(insn, "assignee_var_names") else []):
            writers[w] = writers.get(w, 0) + 1
    for insn in knl.instructions:
        if isinstance(insn, lp.Assignment) and isinstance(insn.assignee, p.Variable) \
                and writers.get(insn.assignee.name) == 1 \
                and knl.temporary_variables.get(insn.assignee.name) is not None \
                and knl.temporary_variables[insn.assignee.name].shape == ():
            scalar_def[insn.assignee.name] = insn.expression

    def subst_scalars(e: Any, depth: int = 0) -> Any:
        from pymbolic.mapper.substitutor import substitute
        if depth > 4 or not scalar_def:
            return e
        return substitute(e, dict(scalar_def))

    obligations: list[dict] = []
    lo_hi: dict[str, list] = {}
    stats = {"accesses": 0, "index_components": 0, "data_dependent_components": 0,
             "unsupported_components": 0}

    def domain_conds(inames: frozenset) -> list[list[Any]] | None:
        """-> list (disjunction) of lists (conjunction) of pymbolic conditions"""
        if not inames:
            return [[]]
        dom = knl.get_inames_domain(inames)
        out = []
        for bs in dom.get_basic_sets():
            conds = []
            for c in bs.get_constraints():
                conds.append(constraint_to_cond_expr(c))
                # constant bounds of single variables (used to size TLC's ranges)
                try:
                    co = {k: int(str(v)) for k, v in c.get_coefficients_by_name().items()}
                    vs = [k for k in co if k != 1 and co[k] != 0]
                    if len(vs) == 1 and abs(co[vs[0]]) == 1 and not c.is_equality():
                        k0 = co.get(1, 0)
                        if co[vs[0]] == 1:
                            lo_hi.setdefault(vs[0], [None, None])[0] = -k0
                        else:
                            lo_hi.setdefault(vs[0], [None, None])[1] = k0
                except Exception:      # noqa: BLE001
                    pass
            out.append(conds)
        return out

    def handle_access(sub: Any, guards: list[Any], inames: frozenset, insn_id: str,
                      role: str) -> None:
        if not isinstance(sub.aggregate, p.Variable) or sub.aggregate.name not in shapes:
            return
        arr = sub.aggregate.name
        shape = shapes[arr]
        stats["accesses"] += 1
        idx = sub.index_tuple
        if len(idx) != len(shape):
            obligations.append({"id": f"{kid}|{insn_id}|{arr}|arity", "static_fail":
                                f"{len(idx)} indices for {len(shape)} axes"})
            return
        doms = domain_conds(inames)
        if not doms:
            # the iteration domain is EMPTY (a reduction over a zero-length axis,
            # inlined): the access is never executed
            stats["accesses_in_empty_domain"] = stats.get("accesses_in_empty_domain", 0) + 1
            return
        for ax, (ie, ext) in enumerate(zip(idx, shape)):
            stats["index_components"] += 1
            names: set[str] = set()
            try:
                ie2 = subst_scalars(ie)
                it = to_tla(ie2, names)
                et = to_tla(ext, names) if not isinstance(ext, (int, np.integer)) \
                    else f"({int(ext)})"
                # a guard that depends on DATA is dropped (the obligation gets
                # stronger; should it then fail, it is reported as inconclusive,
                # never as a violation)
                gts = []
                dropped = 0
                for g in guards:
                    gn: set[str] = set()
                    try:
                        gts.append(to_tla_bool(subst_scalars(g), gn))
                        names |= gn
                    except Unsupported11:
                        dropped += 1
                divs = [to_tla(subst_scalars(d), names) for d in divisors_of(ie2)]
                # the part of the iteration domain that matters: constraints connected
                # (through shared variables) to the index / extent / guards.  A
                # constraint on ONE other variable with constant, non-empty bounds
                # (an independent loop of the nest) is dropped with its variable;
                # anything else is kept, so emptiness of the domain is never lost.
                dts = []
                for conj in doms:
                    parts = []
                    for c in conj:
                        cn: set[str] = set()
                        parts.append((to_tla(subst_scalars(c), cn), cn))
                    core = set(names)
                    changed = True
                    while changed:
                        changed = False
                        for _txt, cn in parts:
                            if cn & core and not cn <= core:
                                core |= cn
                                changed = True
                    keep = []
                    for txt, cn in parts:
                        independent = len(cn) == 1 and not (cn & core) and all(
                            v in lo_hi and None not in lo_hi[v] and lo_hi[v][0] <= lo_hi[v][1]
                            for v in cn)
                        if not independent:
                            keep.append(txt)
                            names |= cn
                    dts.append(keep)
            except Unsupported11 as ex:
                if str(ex) in ("Subscript", "Call"):
                    stats["data_dependent_components"] += 1
                else:
                    stats["unsupported_components"] += 1
                    stats.setdefault("unsupported_kinds", {})
                    stats["unsupported_kinds"][str(ex)] = \
                        stats["unsupported_kinds"].get(str(ex), 0) + 1
                continue
            except Exception:      # noqa: BLE001
                stats["unsupported_components"] += 1
                continue
            obligations.append({
                "id": f"{kid}|{insn_id}|{role}:{arr}[{ax}]",
                "vars": sorted(names), "params": [q for q in params if q in names],
                "domain": dts, "guards": gts, "divisors": divs,
                "dropped_guards": dropped,
                "ranges": {v: lo_hi[v] for v in names if v in lo_hi
                           and None not in lo_hi[v]},
                "index": it, "extent": et, "text": f"{arr}[... {ie} ...] axis {ax} "
                                                   f"extent {ext} guards {guards}"})

    def walk(e: Any, guards: list[Any], inames: frozenset, insn_id: str) -> None:
        if isinstance(e, p.Subscript):
            handle_access(e, guards, inames, insn_id, "read")
            for i in e.index_tuple:
                walk(i, guards, inames, insn_id)
        elif isinstance(e, p.If):
            walk(e.condition, guards, inames, insn_id)
            walk(e.then, [*guards, e.condition], inames, insn_id)
            walk(e.else_, [*guards, p.LogicalNot(e.condition)], inames, insn_id)
        elif isinstance(e, Reduction):
            walk(e.expr, guards, inames | frozenset(e.inames), insn_id)
        elif isinstance(e, (p.Sum, p.Product, p.LogicalAnd, p.LogicalOr, p.Min, p.Max,
                            p.BitwiseAnd, p.BitwiseOr, p.BitwiseXor)):
            for c in e.children:
                walk(c, guards, inames, insn_id)
        elif isinstance(e, (p.Quotient, p.FloorDiv, p.Remainder)):
            walk(e.numerator, guards, inames, insn_id)
            walk(e.denominator, guards, inames, insn_id)
        elif isinstance(e, p.Power):
            walk(e.base, guards, inames, insn_id)
            walk(e.exponent, guards, inames, insn_id)
        elif isinstance(e, p.Comparison):
            walk(e.left, guards, inames, insn_id)
            walk(e.right, guards, inames, insn_id)
        elif isinstance(e, p.LogicalNot):
            walk(e.child, guards, inames, insn_id)
        elif isinstance(e, p.Call):
            for q in e.parameters:
                walk(q, guards, inames, insn_id)
        elif hasattr(e, "child") and isinstance(e, p.ExpressionNode):
            walk(e.child, guards, inames, insn_id)         # TypeCast and the like

    for insn in knl.instructions:
        if not isinstance(insn, lp.Assignment):
            continue
        inames = frozenset(insn.within_inames)
        if isinstance(insn.assignee, p.Subscript):
            handle_access(insn.assignee, [], inames, insn.id, "write")
        walk(insn.expression, [], inames, insn.id)
    return {"id": kid, "obligations": obligations, "stats": stats, "params": params}
