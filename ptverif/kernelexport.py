"""loopy kernels (as produced by pytato's generate_loopy) -> JSON for the
PtKernel (instruction orders) and PtBounds (memory safety) modules."""
from __future__ import annotations

from typing import Any

import numpy as np


def kernel_structure(t_unit: Any) -> dict:
    """Instruction / dependency / variable structure of the entry kernel."""
    import loopy as lp
    knl = t_unit.default_entrypoint
    if knl.substitutions:
        # reads inside substitution rules belong to the invoking instructions
        knl = lp.expand_subst(knl)
    ids = sorted(insn.id for insn in knl.instructions)
    num = {i: k + 1 for k, i in enumerate(ids)}
    inputs = sorted(a.name for a in knl.args
                    if getattr(a, "is_input", True) and not getattr(a, "is_output", False))
    outputs = sorted(a.name for a in knl.args if getattr(a, "is_output", False))
    temps = sorted(knl.temporary_variables)
    insns = []
    dangling = []
    for insn in sorted(knl.instructions, key=lambda i: i.id):
        deps = []
        for d in sorted(insn.depends_on):
            if d in num:
                deps.append(num[d])
            else:
                dangling.append([insn.id, d])
        writes = sorted(insn.assignee_var_names()) if hasattr(insn, "assignee_var_names") \
            else []
        reads = sorted(v for v in insn.read_dependency_names()
                       if (v in knl.temporary_variables
                           and _nonempty(knl.temporary_variables[v].shape))
                       or (v in outputs and _nonempty(knl.arg_dict[v].shape)))
        insns.append({"id": insn.id, "n": num[insn.id], "deps": deps,
                      "writes": [w for w in writes], "reads": reads,
                      "within": sorted(insn.within_inames),
                      "noop": isinstance(insn, lp.NoOpInstruction)})
    return {"insns": insns, "inputs": inputs, "outputs": outputs, "temps": temps,
            "dangling": dangling,
            "nonempty_outputs": sorted(
                a.name for a in knl.args if getattr(a, "is_output", False)
                and _nonempty(a.shape))}


def _nonempty(shape: Any) -> bool:
    try:
        return 0 not in tuple(int(s) for s in shape)
    except TypeError:
        return True
