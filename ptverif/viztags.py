"""Tags and names with characters that are significant in DOT / HTML-like
labels (X02).  Importable, so that worker processes can build them."""
from __future__ import annotations

from dataclasses import dataclass

from pytools.tag import Tag

#: texts a tag may carry; every one must come out of the label unharmed
NASTY = [
    "plain",
    "<b>bold</b>",
    "a&b",
    'say "hi"',
    "it's",
    "back\\slash",
    "two\nlines",
    "a]b[c",
    "x>y<z",
    "&amp;&lt;",
    "tab\there",
    "\\N\\G\\l",
    "}{",
    "<br/>",
    "café ✓",
    "semi;colon, comma",
    "--> -- ->",
    "/* c */ // d # e",
    "'single' \"double\"",
    "]]> <![CDATA[",
]

#: identifiers (valid Python names, hence valid output / placeholder names)
#: that are not all harmless as DOT identifiers
IDENT_NAMES = ["out", "a", "b_1", "_x", "Out2", "α", "node", "edge", "graph", "digraph",
               "subgraph", "strict", "Node", "GRAPH", "label", "cluster_x"]
SAFE_NAMES = ["out", "a", "b_1", "_x", "Out2", "α", "label", "cluster_x", "res", "o2"]


@dataclass(frozen=True)
class NastyTag(Tag):
    s: str = ""


@dataclass(frozen=True)
class OtherTag(Tag):
    s: str = ""
    n: int = 0

    def __str__(self) -> str:          # a str() that differs from the repr
        return f"<{self.s}|{self.n}>"
