"""A pool of interpreter processes with chosen PYTHONHASHSEEDs (DESIGN: the
"interpreter process" machine of C04 / C17 / C18).

Every worker is a fresh ``python -m ptverif.eqworker`` started with its own
``PYTHONHASHSEED`` and answers JSON-line requests {"cmd": ..., ...} with one
JSON line.  Requests to one worker are strictly sequential (so a worker has a
well-defined *history*); different workers run concurrently.
"""
from __future__ import annotations

import json
import os
import subprocess
import sys
import threading
from concurrent.futures import ThreadPoolExecutor
from typing import Any, Callable, Sequence

from .common import REPO, VERIF, MachineryError, scratch


class WorkerError(MachineryError):
    pass


class Worker:
    def __init__(self, seed: int | str, tag: str = "", env: dict[str, str] | None = None):
        self.seed = str(seed)
        self.tag = tag or f"seed{seed}"
        e = dict(os.environ)
        e["PYTHONHASHSEED"] = self.seed
        pp = [p for p in e.get("PYTHONPATH", "").split(os.pathsep) if p and p not in (VERIF, REPO)]
        e["PYTHONPATH"] = os.pathsep.join([VERIF, REPO, *pp])
        e["PTVERIF_REPO"] = REPO
        sc = scratch()
        e["TMPDIR"] = os.path.join(sc, "tmp")
        e["XDG_CACHE_HOME"] = os.path.join(sc, "cache")
        e["VERIF_SCRATCH_DIR"] = sc
        e["PYTHONWARNINGS"] = "ignore"
        e.update(env or {})
        self.errlog = os.path.join(sc, f"worker_{self.tag}_{os.getpid()}_{id(self)}.err")
        self._err = open(self.errlog, "w")
        self.p = subprocess.Popen([sys.executable, "-m", "ptverif.eqworker"],
                                  stdin=subprocess.PIPE, stdout=subprocess.PIPE,
                                  stderr=self._err, env=e, cwd=VERIF, text=True,
                                  bufsize=1)
        self.lock = threading.Lock()
        self.ncalls = 0

    def call(self, cmd: str, **kw: Any) -> Any:
        with self.lock:
            req = json.dumps({"cmd": cmd, **kw})
            try:
                self.p.stdin.write(req + "\n")
                self.p.stdin.flush()
                line = self.p.stdout.readline()
            except (BrokenPipeError, OSError) as ex:
                raise WorkerError(f"worker {self.tag} died: {ex}; {self._tail()}") from ex
            self.ncalls += 1
            if not line:
                raise WorkerError(f"worker {self.tag} closed its pipe during {cmd}; "
                                  f"{self._tail()}")
            rep = json.loads(line)
            if "error" in rep:
                raise WorkerError(f"worker {self.tag}, command {cmd}: {rep['error']}")
            return rep["ok"]

    def _tail(self) -> str:
        try:
            with open(self.errlog) as f:
                return f.read()[-1500:]
        except OSError:
            return ""

    def close(self) -> None:
        try:
            self.p.stdin.close()
            self.p.wait(timeout=10)
        except Exception:       # noqa: BLE001
            self.p.kill()
        self._err.close()


class Pool:
    def __init__(self, seeds: Sequence[int | str], per_seed: int = 1,
                 env: dict[str, str] | None = None):
        self.workers = [Worker(s, f"seed{s}_{k}", env) for s in seeds for k in range(per_seed)]

    def __enter__(self) -> "Pool":
        info = self.map(lambda w: w.call("hello"))
        for w, i in zip(self.workers, info):
            if str(i["hashseed"]) != w.seed:
                raise MachineryError(f"worker {w.tag} runs with hash seed {i['hashseed']}")
            if os.path.realpath(i["pytato"]).find(os.path.realpath(REPO)) != 0:
                raise MachineryError(f"worker imports pytato from {i['pytato']}, not {REPO}")
        return self

    def __exit__(self, *a: Any) -> None:
        for w in self.workers:
            w.close()

    def map(self, fn: Callable[[Worker], Any]) -> list[Any]:
        with ThreadPoolExecutor(max_workers=len(self.workers)) as ex:
            return list(ex.map(fn, self.workers))
