"""X02 (c): repr(array) against the unfolding the specification demands
(spec/PtRepr.tla), and (fancy) the data-flow picture of
show_fancy_placeholder_data_flow (spec/PtDotFancy.tla).

* ``repr_source(root)``  the DAG of printable objects below *root* (a
  reflective walk over dataclass fields; which fields are shown and which may
  be omitted when trivial is what the stringifier documents in its comments)
* ``parse_repr(text)``   a tolerant parser of the text: constructor calls of
  pytato node types with keyword arguments, tuples, dicts, sets, the
  truncation string; everything else is an atom, compared by its text with
  white space removed.  The term is hash-consed, so that the repr of a ladder
  costs as many entries as it has distinct sub-terms.
* ``judge_repr``         hand computation of PtRepr!ReprClause
"""
from __future__ import annotations

import dataclasses
import re
from collections.abc import Mapping
from typing import Any

import numpy as np

from . import mapperharness as mh
from .viz import PARAMS, Unsupported

NODE_HEADS = set(PARAMS) | {"FunctionDefinition"}
OPAQUE = {("CSRMatmul", "matrix"), ("DistributedSendRefHolder", "send")}
_WS = re.compile(r"\s+")


def squeeze(s: str) -> str:
    return _WS.sub("", s)


# --------------------------------------------------------------------------
# expected side

def fmt(v: Any) -> str:
    """how a value without arrays inside is shown ("closely resembles
    CPython's repr"): tuples without the trailing comma, mappings sorted by
    key, dtypes by their quoted name"""
    if isinstance(v, tuple):
        return "(" + ", ".join(fmt(e) for e in v) + ")"
    if isinstance(v, Mapping):
        return "{" + ", ".join(f"{k!r}: {fmt(e)}" for k, e in
                               sorted(v.items(), key=lambda kv: kv[0])) + "}"
    if isinstance(v, np.dtype):
        return f"'{v.name}'"
    return repr(v)


def _has_node(v: Any) -> bool:
    if mh.is_node(v) or mh.is_function(v):
        return True
    if isinstance(v, (tuple, list)):
        return any(_has_node(e) for e in v)
    if isinstance(v, Mapping):
        return any(_has_node(e) for e in v.values())
    return False


class _ReprSource:
    def __init__(self) -> None:
        self.nodes: list[dict] = []
        self.by_id: dict[int, int] = {}
        self.atoms: dict[str, int] = {}
        self.keep: list[Any] = []

    def atom(self, text: str) -> int:
        key = squeeze(text)
        if key in self.atoms:
            return self.atoms[key]
        self.atoms[key] = len(self.nodes) + 1
        self.nodes.append({"kind": "atom", "head": squeeze(text), "trunc": False, "bump": 0,
                           "args": []})
        return len(self.nodes)

    def value(self, v: Any) -> int:
        if mh.is_node(v) or mh.is_function(v):
            return self.node(v)
        if isinstance(v, (frozenset, set)) and v:
            kids = [self.value(e) for e in v]
            self.nodes.append({"kind": "cont", "head": "set", "trunc": False, "bump": 0,
                               "args": [{"key": "", "to": k, "triv": False} for k in kids]})
            return len(self.nodes)
        if isinstance(v, (frozenset, set)):
            return self.atom("{}")
        if not _has_node(v):
            return self.atom(fmt(v))
        if id(v) in self.by_id:
            return self.by_id[id(v)]
        if isinstance(v, (tuple, list)):
            kids = [(str(i), self.value(e)) for i, e in enumerate(v)]
            head = "tuple"
        elif isinstance(v, Mapping):
            kids = [(squeeze(repr(k)), self.value(e))
                    for k, e in sorted(v.items(), key=lambda kv: kv[0])]
            head = "dict"
        else:
            raise Unsupported(f"container {type(v).__name__}")
        self.nodes.append({"kind": "cont", "head": head, "trunc": False, "bump": 0,
                           "args": [{"key": k, "to": t, "triv": False} for k, t in kids]})
        self.by_id[id(v)] = len(self.nodes)
        self.keep.append(v)
        return len(self.nodes)

    def node(self, o: Any) -> int:
        if id(o) in self.by_id:
            return self.by_id[id(o)]
        import pytato as pt
        from pytato.array import Axis, ReductionDescriptor
        head = type(o).__name__
        bump = 1
        args: list[tuple[str, int, bool]] = []
        if head == "LoopyCall":
            raise Unsupported("LoopyCall (the repr of a loopy translation unit is free text)")
        if mh.is_function(o):
            for f in dataclasses.fields(o):
                v = getattr(o, f.name)
                args.append((f.name, self.value(v) if f.name == "returns"
                             else self.atom(repr(v)), False))
        elif head == "DictOfNamedArrays":
            bump = 0
            args.append(("0", self.value(o._data), False))
        elif head == "Call":
            args.append(("function", self.node(o.function), False))
            args.append(("bindings", self.value(o.bindings), False))
        elif head == "DataWrapper":
            for f in dataclasses.fields(o):
                v = getattr(o, f.name)
                args.append((f.name, self.atom(repr(v)) if f.name == "data"
                             else self.value(v), False))
        elif isinstance(o, pt.Array):
            for f in dataclasses.fields(o):
                if f.name == "non_equality_tags":
                    continue
                v = getattr(o, f.name)
                triv = False
                if f.name == "axes":
                    triv = o.ndim <= 1 or all(ax == Axis(frozenset()) for ax in o.axes)
                elif f.name == "tags":
                    triv = not o.tags
                elif f.name == "var_to_reduction_descr" and head == "IndexLambda":
                    triv = all(r == ReductionDescriptor(frozenset()) for r in v.values())
                if (head, f.name) in OPAQUE:
                    args.append((f.name, self.atom("<opaque>"), False))
                else:
                    args.append((f.name, self.value(v), triv))
        else:
            raise Unsupported(f"no repr convention for {head}")
        self.nodes.append({"kind": "node", "head": head, "trunc": True, "bump": bump,
                           "args": [{"key": k, "to": t, "triv": tr} for k, t, tr in args]})
        self.by_id[id(o)] = len(self.nodes)
        self.keep.append(o)
        return len(self.nodes)


def repr_source(root: Any) -> dict:
    """repr(root).  A DictOfNamedArrays at the ROOT has its own __repr__
    (tags, and data = the entries, each printed as repr(array), i.e. from
    depth 0); anywhere else it is printed by the stringifier."""
    b = _ReprSource()
    try:
        if type(root).__name__ == "DictOfNamedArrays":
            data = b.value(root._data) if root._data else b.atom("{}")
            tags = b.atom(repr(root.tags))
            b.nodes.append({"kind": "node", "head": "DictOfNamedArrays", "trunc": False,
                            "bump": 0, "args": [{"key": "tags", "to": tags, "triv": False},
                                                {"key": "data", "to": data, "triv": False}]})
            r = len(b.nodes)
        else:
            r = b.value(root)
    except mh.ReflectError as ex:
        raise Unsupported(str(ex)) from ex
    return {"nodes": b.nodes, "root": r}


# --------------------------------------------------------------------------
# the term parsed from the text

class ReprSyntaxError(Exception):
    pass


_TOK = re.compile(r"""
    (?P<str>[rbuRBU]{0,2}'(?:[^'\\]|\\.)*'|[rbuRBU]{0,2}"(?:[^"\\]|\\.)*")
  | (?P<open>[(\[{])
  | (?P<close>[)\]}])
  | (?P<comma>,)
  | (?P<colon>:)
  | (?P<eq>=(?!=))
  | (?P<ws>\s+)
  | (?P<other>(?:[^\s()\[\]{},:='"]|==)+)
""", re.X)
_PAIR = {"(": ")", "[": "]", "{": "}"}


def _tokens(text: str) -> list[tuple[str, str, int, int]]:
    out = []
    i = 0
    while i < len(text):
        m = _TOK.match(text, i)
        if m is None:
            # a lone quote (inside free text such as  <lambda>'s ): treat as other
            out.append(("other", text[i], i, i + 1))
            i += 1
            continue
        if m.lastgroup != "ws":
            out.append((m.lastgroup or "other", m.group(0), m.start(), m.end()))
        i = m.end()
    return out


class _Term:
    __slots__ = ("kind", "head", "args", "structural", "span")

    def __init__(self, kind: str, head: str, args: list, structural: bool,
                 span: tuple[int, int]):
        self.kind, self.head, self.args, self.structural, self.span = \
            kind, head, args, structural, span


class _ReprParser:
    def __init__(self, text: str, trunc: str = "(...)"):
        self.text = text
        self.toks = _tokens(text)
        self.i = 0
        self.trunc = squeeze(trunc)

    def parse(self) -> _Term:
        t = self.value(stop=())
        if self.i != len(self.toks):
            raise ReprSyntaxError(f"text after the end of the term at {self.toks[self.i][2]}")
        return t

    def value(self, stop: tuple) -> _Term:
        """one value: everything up to a top-level separator in *stop* or a
        closing bracket"""
        start = self.i
        elems: list[Any] = []          # tokens and ("group", open, items, span)
        while self.i < len(self.toks):
            ty, tx, a, b = self.toks[self.i]
            if ty == "close" or ty in stop:
                break
            if ty == "open":
                elems.append(self.group())
            else:
                elems.append(self.toks[self.i])
                self.i += 1
        if start == self.i:
            pos = self.toks[start][2] if start < len(self.toks) else len(self.text)
            return _Term("atom", "", [], False, (pos, pos))
        span = (self.toks[start][2], self.toks[self.i - 1][3])
        if squeeze(self.text[span[0]:span[1]]) == self.trunc:
            return _Term("trunc", "", [], True, span)
        # constantdict({...}): the mapping itself
        if (len(elems) == 2 and elems[0][0] == "other"
                and elems[0][1] in ("constantdict", "immutabledict", "Map", "dict")
                and elems[1][0] == "group" and elems[1][1] == "(" and len(elems[1][2]) == 1
                and elems[1][2][0][0] is None and elems[1][2][0][1].kind == "cont"
                and elems[1][2][0][1].head == "dict"):
            inner = elems[1][2][0][1]
            return _Term("cont", "dict", inner.args, inner.structural, span)
        # NAME(...)  with a pytato node type as NAME
        # (keyword arguments only -- pymbolic's Call(...) is positional -- except
        # the single mapping of a DictOfNamedArrays)
        if (len(elems) == 2 and elems[0][0] == "other" and elems[0][1] in NODE_HEADS
                and elems[1][0] == "group" and elems[1][1] == "("
                and (all(key is not None and key[0] == "kw" for key, _ in elems[1][2])
                     or (elems[0][1] == "DictOfNamedArrays" and len(elems[1][2]) == 1
                         and elems[1][2][0][0] is None))):
            args = []
            for k, (key, val) in enumerate(elems[1][2]):
                if key is None:
                    args.append((str(k), val))
                elif key[0] != "kw":
                    raise ReprSyntaxError(f"{elems[0][1]}: argument is neither positional nor "
                                          f"keyword at {val.span[0]}")
                else:
                    args.append((key[1], val))
            return _Term("node", elems[0][1], args, True, span)
        if len(elems) == 1 and elems[0][0] == "group":
            _, op, items, _ = elems[0]
            if op == "(":
                if any(key is not None for key, _ in items):
                    return _Term("atom", "", [], False, span)
                st = any(v.structural for _, v in items)
                return _Term("cont", "tuple", [(str(k), v) for k, (_, v) in enumerate(items)],
                             st, span)
            if op == "{":
                if items and all(key is not None and key[0] == "dk" for key, _ in items):
                    st = any(v.structural for _, v in items)
                    return _Term("cont", "dict", [(key[1], v) for key, v in items], st, span)
                if items and all(key is None for key, _ in items):
                    return _Term("cont", "set", [("", v) for _, v in items], True, span)
                return _Term("atom", "", [], False, span)
        return _Term("atom", "", [], False, span)

    def group(self) -> tuple:
        ty, op, a, _ = self.toks[self.i]
        self.i += 1
        items: list[tuple[Any, _Term]] = []
        while True:
            if self.i >= len(self.toks):
                raise ReprSyntaxError(f"bracket opened at {a} is never closed")
            ty, tx, _, b = self.toks[self.i]
            if ty == "close":
                if tx != _PAIR[op]:
                    raise ReprSyntaxError(f"bracket opened at {a} closed by {tx!r}")
                self.i += 1
                return ("group", op, items, (a, b))
            if ty == "comma":
                self.i += 1
                continue
            key = None
            nxt = self.toks[self.i + 1] if self.i + 1 < len(self.toks) else None
            if op == "(" and ty == "other" and nxt is not None and nxt[0] == "eq" \
                    and tx.isidentifier():
                key = ("kw", tx)
                self.i += 2
            if op == "{" and key is None:
                # "key: value" -- the key is any value (a quoted name, a dataclass repr)
                val = self.value(stop=("comma", "colon"))
                if self.i < len(self.toks) and self.toks[self.i][0] == "colon":
                    key = ("dk", squeeze(self.text[val.span[0]:val.span[1]]))
                    self.i += 1
                    val = self.value(stop=("comma",))
            else:
                val = self.value(stop=("comma",))
            items.append((key, val))


def parse_repr(text: str, trunc: str = "(...)") -> dict:
    """-> {"error", "what", "nodes": [{"kind", "head", "args": [{"key", "to"}]}], "root"}
    hash-consed, children first"""
    try:
        root = _ReprParser(text, trunc).parse()
    except ReprSyntaxError as ex:
        return {"error": "repr_syntax", "what": str(ex)[:300], "nodes": [], "root": 0}
    table: dict[tuple, int] = {}
    nodes: list[dict] = []

    def intern(t: _Term) -> int:
        if t.kind == "atom" or (t.kind == "cont" and not t.structural):
            key: tuple = ("atom", squeeze(text[t.span[0]:t.span[1]]), ())
        elif t.kind == "trunc":
            key = ("trunc", "", ())
        else:
            key = (t.kind, t.head, tuple(sorted((k, intern(v)) for k, v in t.args)))
        if key not in table:
            nodes.append({"kind": key[0], "head": key[1],
                          "args": [{"key": k, "to": i} for k, i in key[2]]})
            table[key] = len(nodes)
        return table[key]

    import sys
    lim = sys.getrecursionlimit()
    sys.setrecursionlimit(max(lim, 20000))
    try:
        r = intern(root)
    finally:
        sys.setrecursionlimit(lim)
    return {"error": "", "what": "", "nodes": nodes, "root": r}


def normalise_term(T: dict) -> dict:
    """the two fields that are printed opaquely (with an address) become one atom"""
    nodes = [dict(n, args=[dict(a) for a in n["args"]]) for n in T["nodes"]]
    opaque = None
    for n in list(nodes):
        if n["kind"] != "node":
            continue
        for a in n["args"]:
            if (n["head"], a["key"]) in OPAQUE:
                if opaque is None:
                    nodes.append({"kind": "atom", "head": "<opaque>", "args": []})
                    opaque = len(nodes)
                a["to"] = opaque
    if opaque is None:
        return T
    # restore "children first": move the opaque atom to the front
    shift = {i: i + 1 for i in range(1, len(nodes))}
    shift[opaque] = 1
    out = [nodes[opaque - 1]] + nodes[:opaque - 1]
    for n in out:
        for a in n["args"]:
            a["to"] = shift[a["to"]]
    return dict(T, nodes=out, root=shift[T["root"]])


# --------------------------------------------------------------------------
# hand verdict

def _expected_root(S: dict, depth: int, omit: bool, table: dict) -> int:
    memo: dict[tuple[int, int], int] = {}
    nodes = S["nodes"]
    # children first: fill bottom-up for every (k, d)
    for k, nd in enumerate(nodes, start=1):
        for d in range(depth + 2):
            if nd["trunc"] and d > depth:
                key: tuple = ("trunc", "", ())
            else:
                key = (nd["kind"], nd["head"],
                       tuple(sorted((a["key"], memo[a["to"], min(d + nd["bump"], depth + 1)])
                                    for a in nd["args"] if not (omit and a["triv"]))))
            memo[k, d] = table.setdefault(key, len(table) + 1)
    return memo[S["root"], 0]


def explain(S: dict, T: dict, depth: int, omit: bool = True) -> str:
    """where the text leaves the unfolding (for the violation message)"""
    def walk(k: int, d: int, t: int, path: str) -> str | None:
        nd, tn = S["nodes"][k - 1], T["nodes"][t - 1]
        if nd["trunc"] and d > depth:
            return None if tn["kind"] == "trunc" else f"{path}: expected the truncation string"
        if (nd["kind"], nd["head"]) != (tn["kind"], tn["head"]):
            return (f"{path}: expected {nd['kind']} {nd['head'][:60]!r}, "
                    f"found {tn['kind']} {tn['head'][:60]!r}")
        ta = {}
        for a in tn["args"]:
            ta.setdefault(a["key"], []).append(a["to"])
        used: dict[str, int] = {}
        for a in nd["args"]:
            cands = ta.get(a["key"], [])
            i = used.get(a["key"], 0)
            if a["key"] == "":          # a set: any element that fits
                if not any(walk(a["to"], d + nd["bump"], c, path) is None for c in cands):
                    return f"{path}: set element {S['nodes'][a['to'] - 1]['head'][:40]!r} missing"
                continue
            if i >= len(cands):
                if a["triv"]:
                    continue
                return f"{path}: field {a['key']} is not shown"
            used[a["key"]] = i + 1
            r = walk(a["to"], min(d + nd["bump"], depth + 1), cands[i], f"{path}.{a['key']}")
            if r is not None:
                return r
        extra = set(ta) - {a["key"] for a in nd["args"]}
        if extra:
            return f"{path}: unexpected field(s) {sorted(extra)}"
        return None
    import sys
    lim = sys.getrecursionlimit()
    sys.setrecursionlimit(max(lim, 20000))
    try:
        return walk(S["root"], 0, T["root"], "root") or "(no difference found by the walk)"
    finally:
        sys.setrecursionlimit(lim)


def judge_repr(S: dict, T: dict, depth: int) -> tuple[str, str]:
    if T["error"]:
        return T["error"], T["what"]
    table: dict[tuple, int] = {}
    ids: list[int] = []
    for n in T["nodes"]:
        if any(a["to"] > len(ids) for a in n["args"]):
            return "term_order", ""
        key = (n["kind"], n["head"],
               tuple(sorted((a["key"], ids[a["to"] - 1]) for a in n["args"])))
        ids.append(table.setdefault(key, len(table) + 1))
    troot = ids[T["root"] - 1]

    def equal(d: int, omit: bool) -> bool:
        return _expected_root(S, d, omit, dict(table)) == troot
    if any(equal(depth, o) for o in (False, True)):
        return "ok", ""
    for d in (depth - 1, depth + 1):
        if d >= 0 and any(equal(d, o) for o in (False, True)):
            return "truncation_depth", f"the text is the unfolding to depth {d}, not {depth}"
    return "repr_mismatch", ("the text is not the unfolding of the expression: "
                             + explain(S, T, depth))


# --------------------------------------------------------------------------
# fancy placeholder data flow

def fancy_source(outs: dict[str, Any]) -> dict:
    """categories by node type; an IndexLambda is elementwise unless it has no
    operands (a constant fill: hidden)"""
    import pytato as pt
    from pytato.array import IndexRemappingBase
    g = mh.reflect(list(outs.values()))
    nodes = []
    for i, o in enumerate(g.objs):
        kids = [c for c, kd in zip(g.ch[i], g.ek[i]) if kd in ("operand", "index", "csr")]
        text = ""
        if isinstance(o, pt.Placeholder):
            cat, text = "ph", o.name
        elif isinstance(o, pt.DataWrapper):
            cat = "hidden"
        elif isinstance(o, pt.IndexLambda):
            cat = "ew" if o.bindings else "hidden"
            kids = [g.num[id(b)] for b in o.bindings.values()]
        elif isinstance(o, pt.Einsum):
            from pytato.utils import get_einsum_specification
            cat, text = "einsum", get_einsum_specification(o).replace("->", "→")
        elif isinstance(o, (pt.Stack, pt.Concatenate)):
            cat = "stackconcat"
        elif isinstance(o, (pt.AdvancedIndexInContiguousAxes, pt.AdvancedIndexInNoncontiguousAxes)):
            cat = "adv"
        elif isinstance(o, IndexRemappingBase):
            cat = "remap"
            kids = [g.num[id(o.array)]]
        elif type(o).__name__ == "CSRMatmul":
            cat = "csr"
        else:
            raise Unsupported(f"no category for {type(o).__name__}")
        nodes.append({"cat": cat, "text": text, "kids": kids})
    return {"nodes": nodes,
            "outputs": [{"name": n, "node": r} for n, r in zip(outs, g.roots)]}


def fancy_rendering(text: str) -> dict:
    from . import vizdot
    try:
        g = vizdot.parse(text)
    except vizdot.DotSyntaxError as ex:
        return {"error": "dot_syntax", "what": str(ex)[:300], "nodes": []}
    ids = list(g.nodes)
    raw = {}
    for nid, nd in g.nodes.items():
        lab = nd.attrs.get("label")
        col = nd.attrs.get("color", ("id", "?"))[1]
        shp = nd.attrs.get("shape", ("id", "?"))[1]
        raw[nid] = {"id": nid, "cl": [], "title": vizdot.plain_text(*lab) if lab else nid,
                    "fields": {"_": "", "look": f"{col}/{shp}"}, "plain": True, "oid": 0,
                    "nstmt": nd.nstmt, "srcs": []}
    for e in g.edges:
        raw[e.dst]["srcs"].append(e.src)
    indeg = {i: len(set(raw[i]["srcs"])) for i in ids}
    users: dict[str, list[str]] = {i: [] for i in ids}
    for i in ids:
        for s in set(raw[i]["srcs"]):
            users[s].append(i)
    ready = [i for i in ids if indeg[i] == 0]
    order = []
    while ready:
        i = ready.pop(0)
        order.append(i)
        for u in users[i]:
            indeg[u] -= 1
            if indeg[u] == 0:
                ready.append(u)
    order += [i for i in ids if i not in set(order)]
    pos = {nid: k + 1 for k, nid in enumerate(order)}
    nodes = []
    for nid in order:
        nd = raw[nid]
        nd["kids"] = [{"to": pos[s], "lab": "", "style": ""} for s in nd.pop("srcs")]
        nodes.append(nd)
    return {"error": "", "what": "", "nodes": nodes}


def fancy_picture(S: dict) -> list[dict]:
    """hand computation of PtDotFancy!FancyPicture (items as in viz.picture)"""
    look = {"ph": "lightgrey/ellipse", "out": "springgreen/ellipse", "ew": "coral1/diamond",
            "remap": "coral1/diamond", "einsum": "crimson/box3d",
            "stackconcat": "deepskyblue/folder", "adv": "darkblue/hexagon", "csr": "gold/star"}
    shown = []
    for nd in S["nodes"]:
        shown.append(nd["cat"] == "ph" or (nd["cat"] != "hidden"
                                           and any(shown[k - 1] for k in nd["kids"])))
    pos = {}
    items = []
    for k, nd in enumerate(S["nodes"], start=1):
        if not shown[k - 1]:
            continue
        srcs = sorted({c for c in nd["kids"] if shown[c - 1]})
        items.append({"cl": [], "title": nd["text"], "must": {"_": "", "look": look[nd["cat"]]},
                      "may": {"_": ""}, "plain": True, "node": 0, "ph": False,
                      "kids": [{"to": pos[c], "lab": "", "style": "", "anyinst": False}
                               for c in srcs]})
        pos[k] = len(items)
    for o in S["outputs"]:
        if shown[o["node"] - 1]:
            items.append({"cl": [], "title": o["name"],
                          "must": {"_": "", "look": look["out"]}, "may": {"_": ""},
                          "plain": True, "node": 0, "ph": False,
                          "kids": [{"to": pos[o["node"]], "lab": "", "style": "",
                                    "anyinst": False}]})
    return items
