"""A small, strict-where-it-matters parser of the DOT language, and the
abstract rendering read off a DOT text (X02).

The parser implements the grammar of https://graphviz.org/doc/info/lang.html
(graph / digraph, statements separated by ';' or white space, node, edge and
attribute statements, ``ID = ID``, nested subgraphs, ports, edge chains and
subgraph operands of edges, quoted strings with ``\\"`` and ``+``
concatenation, HTML strings with balanced angle brackets, numerals, the three
comment forms).  An unquoted ID must be alphanumeric (not starting with a
digit) or a numeral and may not be one of the six keywords, compared without
regard to case: text that graphviz' own parser refuses is refused here
(``DotSyntaxError``), so that a name that breaks the DOT text is noticed
without graphviz being installed.  When a ``dot`` executable exists,
``graphviz_view`` gives graphviz' own reading of the same text and the check
compares the two (a disagreement is a machinery failure, never a verdict).

Semantics (graphviz'): a node exists once per ID however often it is
declared or mentioned; it is a member of every subgraph in which it is
declared or mentioned as an edge end point; attributes of later statements
override earlier ones; ``node [..]`` defaults are not resolved (the abstract
rendering does not look at shapes and colours, with one exception: the
``shape`` given in the node statement itself).
"""
from __future__ import annotations

import html
import re
import xml.etree.ElementTree as ET
from dataclasses import dataclass, field
from typing import Any

KEYWORDS = {"node", "edge", "graph", "digraph", "subgraph", "strict"}
_ID_RE = re.compile(r"[A-Za-z_\u0080-\U0010ffff][A-Za-z_0-9\u0080-\U0010ffff]*")
_NUM_RE = re.compile(r"-?(\.[0-9]+|[0-9]+(\.[0-9]*)?)")
COMPASS = {"n", "ne", "e", "se", "s", "sw", "w", "nw", "c", "_"}


class DotSyntaxError(Exception):
    pass


@dataclass
class Tok:
    kind: str        # "id" | "qid" | "html" | "num" | "kw" | punctuation
    text: str        # value (unquoted / unescaped for qid, inner text for html)
    pos: int


def tokenize(s: str) -> list[Tok]:
    toks: list[Tok] = []
    i, n = 0, len(s)
    while i < n:
        c = s[i]
        if c in " \t\r\n\f\v":
            i += 1
            continue
        if c == "#" and (i == 0 or s[i - 1] == "\n"):
            j = s.find("\n", i)
            i = n if j < 0 else j
            continue
        if s.startswith("//", i):
            j = s.find("\n", i)
            i = n if j < 0 else j
            continue
        if s.startswith("/*", i):
            j = s.find("*/", i + 2)
            if j < 0:
                raise DotSyntaxError(f"unterminated comment at {i}")
            i = j + 2
            continue
        if c == '"':
            j = i + 1
            buf = []
            while True:
                if j >= n:
                    raise DotSyntaxError(f"unterminated string starting at {i}")
                d = s[j]
                if d == "\\" and j + 1 < n:
                    if s[j + 1] == '"':
                        buf.append('"')
                    elif s[j + 1] == "\n":
                        pass                        # line continuation
                    else:
                        buf.append(d + s[j + 1])    # other escapes stay (escString)
                    j += 2
                    continue
                if d == '"':
                    break
                buf.append(d)
                j += 1
            toks.append(Tok("qid", "".join(buf), i))
            i = j + 1
            continue
        if c == "<":
            depth, j = 1, i + 1
            while j < n and depth:
                if s[j] == "<":
                    depth += 1
                elif s[j] == ">":
                    depth -= 1
                j += 1
            if depth:
                raise DotSyntaxError(f"unterminated HTML string starting at {i}")
            toks.append(Tok("html", s[i + 1:j - 1], i))
            i = j
            continue
        if s.startswith("->", i) or s.startswith("--", i):
            toks.append(Tok(s[i:i + 2], s[i:i + 2], i))
            i += 2
            continue
        m = _NUM_RE.match(s, i)
        if m and (c.isdigit() or c in "-."):
            j = m.end()
            # graphviz: "badly delimited number" when an identifier character follows
            if j < n and _ID_RE.match(s, j):
                raise DotSyntaxError(f"badly delimited number at {i}: {s[i:j + 3]!r}")
            toks.append(Tok("num", m.group(0), i))
            i = j
            continue
        m = _ID_RE.match(s, i)
        if m:
            w = m.group(0)
            toks.append(Tok("kw" if w.lower() in KEYWORDS else "id", w, i))
            i = m.end()
            continue
        if c in "{}[]=;,:+":
            toks.append(Tok(c, c, i))
            i += 1
            continue
        raise DotSyntaxError(f"unexpected character {c!r} at {i}: ...{s[max(0, i - 20):i + 20]!r}")
    return toks


@dataclass
class DotNode:
    id: str
    attrs: dict[str, tuple[str, str]] = field(default_factory=dict)   # key -> (kind, text)
    member: list[tuple[str, ...]] = field(default_factory=list)       # subgraph paths, text order
    nstmt: int = 0
    stmt_attrs: list[dict[str, tuple[str, str]]] = field(default_factory=list)


@dataclass
class DotEdge:
    src: str
    dst: str
    attrs: dict[str, tuple[str, str]]
    path: tuple[str, ...]


@dataclass
class DotGraph:
    name: str
    directed: bool
    nodes: dict[str, DotNode] = field(default_factory=dict)
    edges: list[DotEdge] = field(default_factory=list)
    #: subgraph path (tuple of names from the root) -> graph attributes set there
    subgraphs: dict[tuple[str, ...], dict[str, tuple[str, str]]] = field(default_factory=dict)
    order: list[tuple[str, ...]] = field(default_factory=list)
    #: how often a subgraph of that path was opened
    opened: dict[tuple[str, ...], int] = field(default_factory=dict)


class _Parser:
    def __init__(self, toks: list[Tok], text: str):
        self.t, self.i, self.text = toks, 0, text
        self.anon = 0

    def peek(self, k: int = 0) -> Tok | None:
        return self.t[self.i + k] if self.i + k < len(self.t) else None

    def err(self, what: str) -> DotSyntaxError:
        tok = self.peek()
        where = "end of text" if tok is None else \
            f"{tok.text!r} at {tok.pos} (...{self.text[max(0, tok.pos - 30):tok.pos + 30]!r})"
        return DotSyntaxError(f"{what}, found {where}")

    def take(self, kind: str | None = None) -> Tok:
        tok = self.peek()
        if tok is None or (kind is not None and tok.kind != kind):
            raise self.err(f"expected {kind or 'a token'}")
        self.i += 1
        return tok

    def is_id(self, tok: Tok | None) -> bool:
        return tok is not None and tok.kind in ("id", "qid", "html", "num")

    def take_id(self) -> Tok:
        tok = self.peek()
        if not self.is_id(tok):
            raise self.err("expected an ID")
        self.i += 1
        assert tok is not None
        # "a" + "b" concatenation of quoted strings
        while tok.kind == "qid" and self.peek() is not None and self.peek().kind == "+":   # type: ignore[union-attr]
            self.i += 1
            nxt = self.take("qid")
            tok = Tok("qid", tok.text + nxt.text, tok.pos)
        return tok

    # -- grammar
    def graph(self) -> DotGraph:
        tok = self.take()
        if tok.kind == "kw" and tok.text.lower() == "strict":
            tok = self.take()
        if tok.kind != "kw" or tok.text.lower() not in ("graph", "digraph"):
            self.i -= 1
            raise self.err("expected 'graph' or 'digraph'")
        directed = tok.text.lower() == "digraph"
        name = ""
        if self.is_id(self.peek()):
            name = self.take_id().text
        g = DotGraph(name, directed)
        self.g = g
        g.subgraphs[()] = {}
        g.order.append(())
        self.take("{")
        self.stmt_list(())
        self.take("}")
        if self.peek() is not None:
            raise self.err("text after the closing brace")
        return g

    def stmt_list(self, path: tuple[str, ...]) -> None:
        while True:
            tok = self.peek()
            if tok is None or tok.kind == "}":
                return
            self.stmt(path)
            if self.peek() is not None and self.peek().kind == ";":      # type: ignore[union-attr]
                self.i += 1

    def attr_list(self) -> dict[str, tuple[str, str]]:
        out: dict[str, tuple[str, str]] = {}
        while self.peek() is not None and self.peek().kind == "[":       # type: ignore[union-attr]
            self.i += 1
            while self.peek() is not None and self.peek().kind != "]":   # type: ignore[union-attr]
                k = self.take_id()
                self.take("=")
                v = self.take_id()
                out[k.text] = (v.kind, v.text)
                if self.peek() is not None and self.peek().kind in (";", ","):   # type: ignore[union-attr]
                    self.i += 1
            self.take("]")
        return out

    def mention(self, nid: str, path: tuple[str, ...]) -> DotNode:
        nd = self.g.nodes.get(nid)
        if nd is None:
            nd = self.g.nodes[nid] = DotNode(nid)
        for k in range(1, len(path) + 1):
            if path[:k] not in nd.member:
                nd.member.append(path[:k])
        return nd

    def node_id(self) -> str:
        tok = self.take_id()
        # port
        while self.peek() is not None and self.peek().kind == ":":       # type: ignore[union-attr]
            self.i += 1
            self.take_id()
        return tok.text

    def subgraph(self, path: tuple[str, ...]) -> tuple[tuple[str, ...], list[str]]:
        """-> (path of the subgraph, node ids mentioned directly in it)"""
        tok = self.peek()
        name = None
        if tok is not None and tok.kind == "kw" and tok.text.lower() == "subgraph":
            self.i += 1
            if self.is_id(self.peek()):
                name = self.take_id().text
        if name is None:
            self.anon += 1
            name = f"%anon{self.anon}"
        sub = (*path, name)
        if sub not in self.g.subgraphs:
            self.g.subgraphs[sub] = {}
            self.g.order.append(sub)
        self.g.opened[sub] = self.g.opened.get(sub, 0) + 1
        before = {k: len(v.member) for k, v in self.g.nodes.items()}
        self.take("{")
        self.stmt_list(sub)
        self.take("}")
        inside = [k for k, v in self.g.nodes.items()
                  if sub in v.member and (k not in before or sub not in v.member[:before[k]])]
        return sub, inside

    def stmt(self, path: tuple[str, ...]) -> None:
        tok = self.peek()
        assert tok is not None
        if tok.kind == "kw" and tok.text.lower() in ("graph", "node", "edge"):
            self.i += 1
            if self.peek() is None or self.peek().kind != "[":            # type: ignore[union-attr]
                raise self.err(f"expected '[' after '{tok.text}'")
            attrs = self.attr_list()
            if tok.text.lower() == "graph":
                self.g.subgraphs[path].update(attrs)
            return
        if tok.kind == "kw" and tok.text.lower() != "subgraph":
            raise self.err("a keyword cannot start a statement here")
        ends: list[list[str]] = []
        if tok.kind == "{" or tok.kind == "kw":
            _, ids = self.subgraph(path)
            ends.append(ids)
            is_sub = True
        else:
            # ID '=' ID ?
            nxt = self.peek(1)
            if self.is_id(tok) and nxt is not None and nxt.kind == "=":
                k = self.take_id()
                self.take("=")
                v = self.take_id()
                self.g.subgraphs[path][k.text] = (v.kind, v.text)
                return
            nid = self.node_id()
            ends.append([nid])
            is_sub = False
        saw_edge = False
        while self.peek() is not None and self.peek().kind in ("->", "--"):   # type: ignore[union-attr]
            op = self.take()
            if (op.kind == "->") != self.g.directed:
                raise DotSyntaxError(f"edge operator {op.kind} does not fit the graph type")
            saw_edge = True
            nxt = self.peek()
            if nxt is not None and (nxt.kind == "{" or (
                    nxt.kind == "kw" and nxt.text.lower() == "subgraph")):
                _, ids = self.subgraph(path)
                ends.append(ids)
            else:
                ends.append([self.node_id()])
        attrs = self.attr_list()
        if saw_edge:
            for a, b in zip(ends, ends[1:]):
                for u in a:
                    for v in b:
                        self.mention(u, path)
                        self.mention(v, path)
                        self.g.edges.append(DotEdge(u, v, dict(attrs), path))
        elif not is_sub:
            nd = self.mention(ends[0][0], path)
            nd.nstmt += 1
            nd.attrs.update(attrs)
            nd.stmt_attrs.append(dict(attrs))
        elif attrs:
            raise self.err("attributes after a subgraph that is not an edge end")


def parse(text: str) -> DotGraph:
    return _Parser(tokenize(text), text).graph()


def homes(g: DotGraph) -> tuple[dict[str, tuple[str, ...]], int]:
    """node id -> path of the cluster it is drawn in, and the number of nodes
    that are mentioned in clusters that are not nested in one another.
    Membership should be one chain of nested clusters; otherwise the first
    cluster in text order counts (graphviz keeps a node in the first cluster
    it meets it in and drops it from the others)."""
    out: dict[str, tuple[str, ...]] = {}
    multi = 0
    for nid, nd in g.nodes.items():
        clusters = [p for p in nd.member if p[-1].startswith("cluster")]
        home: tuple[str, ...] = ()
        if clusters:
            deepest = max(clusters, key=len)
            if all(deepest[:len(p)] == p for p in clusters):
                home = deepest
            else:
                multi += 1
                first = clusters[0]
                home = max((p for p in clusters if p[:len(first)] == first), key=len)
        out[nid] = home
    return out, multi


# --------------------------------------------------------------------------
# labels

class LabelError(Exception):
    pass


def _text_of(el: ET.Element) -> str:
    """text content, <br/> as newline"""
    out = [el.text or ""]
    for ch in el:
        if ch.tag.lower() == "br":
            out.append("\n")
        else:
            out.append(_text_of(ch))
        out.append(ch.tail or "")
    return "".join(out)


def html_label(src: str) -> tuple[str, list[tuple[str, str]]]:
    """An HTML-like label as pytato writes it (a table: one title row with a
    single cell, then rows "name:" | value) -> (title, [(name, value)]).
    graphviz parses these labels with an XML parser (expat), so does this."""
    try:
        root = ET.fromstring(src.strip())
    except ET.ParseError as ex:
        raise LabelError(f"HTML-like label is not well-formed: {ex}: {src[:200]!r}") from ex
    if root.tag.lower() != "table":
        raise LabelError(f"HTML-like label is not a table: {src[:100]!r}")
    rows = [r for r in root if r.tag.lower() == "tr"]
    if not rows:
        raise LabelError("table without rows")
    title_cells = [c for c in rows[0] if c.tag.lower() == "td"]
    if len(title_cells) != 1:
        raise LabelError("title row does not have exactly one cell")
    title = _text_of(title_cells[0])
    fields = []
    for r in rows[1:]:
        cells = [c for c in r if c.tag.lower() == "td"]
        if len(cells) != 2:
            raise LabelError(f"field row with {len(cells)} cells")
        k = _text_of(cells[0])
        if not k.endswith(":"):
            raise LabelError(f"field name cell {k!r} does not end in ':'")
        fields.append((k[:-1], _text_of(cells[1])))
    return title, fields


def plain_text(kind: str, text: str) -> str:
    """what graphviz shows for a non-HTML label: character entities decoded"""
    return html.unescape(text) if kind in ("qid", "id", "num") else text


# --------------------------------------------------------------------------
# graphviz' own reading (optional voice)

def graphviz_view(text: str) -> dict[str, Any] | None:
    """{"ok": bool, "stderr": str, "nodes": {id: [cluster names]}, "edges":
    sorted [(src, dst)], "clusters": {name: label}} or None when no ``dot``
    executable is installed."""
    import json
    import shutil
    import subprocess
    exe = shutil.which("dot")
    if exe is None:
        return None
    try:
        p = subprocess.run([exe, "-Tdot_json"], input=text, capture_output=True, text=True,
                           timeout=120)
    except (OSError, subprocess.TimeoutExpired):
        return None
    if p.returncode != 0:
        return {"ok": False, "stderr": p.stderr.strip()[:500]}
    try:
        j = json.loads(p.stdout)
    except json.JSONDecodeError:
        return None
    objs = j.get("objects", [])
    name_of = {o["_gvid"]: o["name"] for o in objs}
    nodes: dict[str, list[str]] = {o["name"]: [] for o in objs if "nodes" not in o
                                   and "subgraphs" not in o and "_gvid" in o
                                   and not _is_subgraph(o, j)}
    clusters = {}
    for o in objs:
        if _is_subgraph(o, j):
            clusters[o["name"]] = o.get("label", "")
            for k in o.get("nodes", []):
                nodes.setdefault(name_of[k], []).append(o["name"])
    edges = sorted((name_of[e["tail"]], name_of[e["head"]]) for e in j.get("edges", []))
    return {"ok": True, "stderr": p.stderr.strip()[:500], "nodes": nodes, "edges": edges,
            "clusters": clusters}


def _is_subgraph(o: dict, j: dict) -> bool:
    return o.get("_gvid", 10 ** 9) < j.get("_subgraph_cnt", 0)
