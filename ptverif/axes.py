"""Axis-tag unification (pytato.unify_axes_tags): harness side of check X01.

* tags used by the programs (two plain user tag types, a subclass, the ignore
  tag and a subclass of it, a unique tag);
* programs as data with tag placements ("axtags" / "rdtags" / "opts") and
  their replay through pytato's public API;
* a reflective exporter of the fields spec/PtAxes.tla reads (never uses
  pytato's mappers; scalar expressions go through export.expr_to_json);
* the SECOND VOICE: the rule tables of PtAxes written again, independently, in
  Python (union-find instead of set iteration), giving the same clause names
  plus per-axis detail.  spec != hand computation is a machinery error.
"""
from __future__ import annotations

import hashlib
import json
from typing import Any

import numpy as np

from . import replay as rp
from .export import Unsupported, data_name, dt


class HasFunctions(Exception):
    """The graph contains function calls (documented NotImplementedError)."""


# --------------------------------------------------------------------------
# tags

_TAGS: dict[str, Any] = {}


def tag_classes() -> dict[str, Any]:
    if not _TAGS:
        from dataclasses import dataclass

        from pytools.tag import Tag, UniqueTag

        from pytato.transform.metadata import AxisIgnoredForPropagationTag

        @dataclass(frozen=True)
        class XA(Tag):
            pass

        @dataclass(frozen=True)
        class XA2(XA):
            pass

        @dataclass(frozen=True)
        class XB(Tag):
            n: int = 0

        @dataclass(frozen=True)
        class XIgn(AxisIgnoredForPropagationTag):
            pass

        @dataclass(frozen=True)
        class XU(UniqueTag):
            n: int = 0

        _TAGS.update({"A": XA, "A2": XA2, "B": XB, "IgnSub": XIgn, "U": XU,
                      "Ign": AxisIgnoredForPropagationTag, "Tag": Tag})
    return _TAGS


def make_tag(spec: str) -> Any:
    """ "A" | "A2" | "B" | "B:3" | "Ign" | "IgnSub" | "U:1" """
    name, _, arg = spec.partition(":")
    cls = tag_classes()[name]
    return cls(int(arg)) if arg else cls()


def tag_type(name: str) -> Any:
    return tag_classes()[name]


def tname(t: Any) -> str:
    return repr(t)


# --------------------------------------------------------------------------
# programs with tag placements

def n_redn(x: Any) -> int:
    import pytato as pt
    from pytato.array import CSRMatmul
    if isinstance(x, pt.IndexLambda):
        return len(x.var_to_reduction_descr)
    if isinstance(x, pt.Einsum):
        return len(x.redn_axis_to_redn_descr)
    if isinstance(x, CSRMatmul):
        return 1
    return 0


def tag_redn(x: Any, j: int, tag: Any) -> Any:
    import pytato as pt
    from pytato.array import CSRMatmul
    if isinstance(x, pt.IndexLambda):
        return x.with_tagged_reduction(sorted(x.var_to_reduction_descr)[j], tag)
    if isinstance(x, pt.Einsum):
        return x.with_tagged_reduction(
            sorted(x.redn_axis_to_redn_descr, key=lambda d: d.dim)[j], tag)
    if isinstance(x, CSRMatmul):
        return x.with_tagged_reduction(tag)
    return x


def taggable(v: Any) -> bool:
    """(the axes of a DistributedSendRefHolder are those of its pass-through
    data: it has none of its own to tag)"""
    import pytato as pt
    from pytato.distributed.nodes import DistributedSendRefHolder
    from pytato.function import NamedCallResult
    return isinstance(v, pt.Array) and not isinstance(
        v, (DistributedSendRefHolder, NamedCallResult))


def build(prog: dict, data: dict[str, np.ndarray] | None = None) -> tuple[dict[str, Any], list]:
    """Replays the program; every value is tagged as the placement says right
    after it is created, so every later user sees the tagged node.
    -> (outputs, all values)"""
    import pytato as pt
    ax: dict[int, list] = {}
    for k, i, spec in prog.get("axtags", []):
        ax.setdefault(k, []).append((i, spec))
    rd: dict[int, list] = {}
    for k, j, spec in prog.get("rdtags", []):
        rd.setdefault(k, []).append((j, spec))
    pb = rp.PtBackend(data or {})
    pb.prog = prog
    pb.values = []
    pb.rejections = {}

    def placed(v: Any) -> Any:
        k = len(pb.values) + 1
        if taggable(v):
            for i, spec in ax.get(k, []):
                if i < v.ndim:
                    v = v.with_tagged_axis(i, make_tag(spec))
            for j, spec in rd.get(k, []):
                if j < n_redn(v):
                    v = tag_redn(v, j, make_tag(spec))
        return v

    for inp in prog["inputs"]:
        if inp.get("kind") == "recv":
            from pytato.distributed.nodes import make_distributed_recv
            v = make_distributed_recv(inp["src"], inp["comm_tag"], tuple(inp["shape"]),
                                      rp.DT[inp["dtype"]])
        elif any(isinstance(d, str) for d in inp["shape"]):
            # size parameters: a shape entry "n" is pt.make_size_param("n")
            v = pt.make_placeholder(
                inp["name"], tuple(pt.make_size_param(d) if isinstance(d, str) else d
                                   for d in inp["shape"]), rp.DT[inp["dtype"]])
        else:
            v = pb.make_input(inp)
        pb.values.append(placed(v))
    for call in prog["calls"]:
        if call["op"] == "send_holder":
            from pytato.distributed.nodes import staple_distributed_send
            v = staple_distributed_send(pb.get(call["data"]), call["dest"], call["comm_tag"],
                                        stapled_to=pb.get(call["a"]))
        elif call["op"] == "dict_entry":
            # an entry of a dictionary of named arrays, used as an operand
            v = pt.make_dict_of_named_arrays(
                {call["name"]: pb.get(call["a"])})[call["name"]]
        elif call["op"] == "raw_il":
            v = raw_index_lambda(call, pb.get)
        elif call["op"] == "trace_call":
            v = pt.trace_call(lambda u: 2 * u, pb.get(call["a"]))
        else:
            v = pb.call(call)
        pb.values.append(placed(v))
    return pb.outs(), pb.values


def raw_index_lambda(call: dict, get: Any) -> Any:
    """A hand-written IndexLambda: call["expr"] is Python source over the
    names v(name), sub(agg, *idx), red(op, {var: (lo, hi)}, inner)."""
    import pymbolic.primitives as prim
    from constantdict import constantdict

    import pytato as pt
    from pytato.array import ReductionDescriptor
    from pytato.reductions import SumReductionOperation
    from pytato.scalar_expr import Reduce
    bindings = {k: get(v) for k, v in call["bind"].items()}
    env = {"v": prim.Variable,
           "sub": lambda a, *i: prim.Subscript(prim.Variable(a), tuple(i)),
           "red": lambda bounds, inner: Reduce(inner, SumReductionOperation(),
                                               constantdict(bounds))}
    expr = eval(call["expr"], {"__builtins__": {}}, env)      # noqa: S307
    return pt.IndexLambda(expr=expr, shape=tuple(call["shape"]),
                          dtype=np.dtype(rp.DT[call.get("dtype", "f8")]),
                          bindings=constantdict(bindings),
                          var_to_reduction_descr=constantdict(
                              {r: ReductionDescriptor(frozenset()) for r in call.get("rvars", [])}),
                          axes=tuple(pt.array.Axis(frozenset()) for _ in call["shape"]),
                          tags=frozenset())


# --------------------------------------------------------------------------
# exporter

def expr_to_json(e: Any, bindings: dict[str, Any]) -> Any:
    """Scalar expressions in the format of export.expr_to_json (same kinds),
    except that NOTHING is simplified away: the argument of pytato.zero(...)
    (zeros_like) is a subscript of the expression like any other."""
    import re

    import pymbolic.primitives as prim

    from pytato.scalar_expr import Reduce, TypeCast
    nary = {prim.Sum: "add", prim.Product: "mul", prim.LogicalAnd: "and", prim.LogicalOr: "or",
            prim.BitwiseAnd: "band", prim.BitwiseOr: "bor", prim.BitwiseXor: "bxor",
            prim.Max: "max", prim.Min: "min"}
    binary = {prim.Quotient: ("quot", "numerator", "denominator"),
              prim.FloorDiv: ("fdiv", "numerator", "denominator"),
              prim.Remainder: ("mod", "numerator", "denominator"),
              prim.Power: ("pow", "base", "exponent")}

    def rec(e: Any) -> Any:
        if isinstance(e, prim.Variable):
            m = re.fullmatch(r"_(0|[1-9][0-9]*)", e.name)
            if m and e.name not in bindings:
                return {"k": "ix", "d": int(m.group(1))}
            if e.name in bindings:
                return {"k": "bv", "n": e.name}
            return {"k": "rv", "n": e.name}
        if isinstance(e, prim.Subscript):
            if not isinstance(e.aggregate, prim.Variable):
                raise Unsupported("subscript of non-variable")
            return {"k": "sub", "a": e.aggregate.name, "i": [rec(i) for i in e.index_tuple]}
        for cls, k in nary.items():
            if isinstance(e, cls):
                return {"k": k, "c": [rec(c) for c in e.children]}
        for cls, (k, fa, fb) in binary.items():
            if isinstance(e, cls):
                return {"k": k, "a": rec(getattr(e, fa)), "b": rec(getattr(e, fb))}
        if isinstance(e, prim.Comparison):
            return {"k": "cmp", "op": e.operator, "a": rec(e.left), "b": rec(e.right)}
        if isinstance(e, prim.LogicalNot):
            return {"k": "not", "a": rec(e.child)}
        if isinstance(e, prim.If):
            return {"k": "if", "c": rec(e.condition), "t": rec(e.then), "e": rec(e.else_)}
        if isinstance(e, prim.Call):
            return {"k": "call", "fn": str(e.function), "p": [rec(q) for q in e.parameters]}
        if isinstance(e, prim.NaN):
            return {"k": "nan"}
        if isinstance(e, TypeCast):
            return {"k": "cast", "dt": dt(e.dtype), "a": rec(e.inner_expr)}
        if isinstance(e, Reduce):
            return {"k": "red", "op": type(e.op).__name__,
                    "b": [{"v": v, "lo": rec(lo), "hi": rec(hi)}
                          for v, (lo, hi) in sorted(e.bounds.items())],
                    "a": rec(e.inner_expr)}
        if isinstance(e, prim.ExpressionNode):
            raise Unsupported(f"expression node {type(e).__name__}")
        if isinstance(e, (bool, np.bool_)):
            return {"k": "c", "v": int(e)}
        if isinstance(e, (int, np.integer)) and abs(int(e)) < 2 ** 30:
            return {"k": "c", "v": int(e)}
        return {"k": "cd", "v": repr(e)}

    return rec(e)


def _sha(o: Any) -> str:
    return hashlib.sha256(json.dumps(o, sort_keys=True, default=str).encode()).hexdigest()[:16]


SYMBOLIC = 100000      # a size parameter is exported as SYMBOLIC + its ordinal


def _dim(s: Any, table: dict[str, int] | None) -> int:
    """An axis length: the integer, or -- for a bare size parameter -- a code
    >= SYMBOLIC that is equal for equal parameters and different from every
    other length (all the rules need is equality of lengths, and whether a
    length is 0 or 1).  Other symbolic lengths (n + 1, ...) are unsupported."""
    from pytato.array import SizeParam
    if isinstance(s, (int, np.integer)):
        if int(s) >= SYMBOLIC:
            raise Unsupported("huge axis")
        return int(s)
    if table is not None and isinstance(s, SizeParam):
        return SYMBOLIC + table.setdefault(s.name, len(table))
    raise Unsupported("symbolic shape component")


def _shape(shape: Any, table: dict[str, int] | None = None) -> list[int]:
    return [_dim(s, table) for s in shape]


def _tl(tags: Any) -> list[str]:
    return sorted(tname(t) for t in tags)


class AxesExporter:
    """-> {"nodes": [...], "outs": [{"name", "node"}]}; self.tags collects
    every tag object seen on an axis or a reduction descriptor."""

    def __init__(self) -> None:
        self.nodes: list[dict] = []
        self.pos: dict[int, int] = {}
        self.keep: list[Any] = []
        self.tags: dict[str, Any] = {}
        self.params: dict[str, int] = {}

    def _see(self, tags: Any) -> list[str]:
        for t in tags:
            self.tags.setdefault(tname(t), t)
        return _tl(tags)

    def rec(self, x: Any) -> int:
        from pytato.array import (
            AdvancedIndexInContiguousAxes,
            AdvancedIndexInNoncontiguousAxes,
            Array,
            AxisPermutation,
            BasicIndex,
            Concatenate,
            CSRMatmul,
            DataWrapper,
            DictOfNamedArrays,
            Einsum,
            EinsumElementwiseAxis,
            IndexLambda,
            NamedArray,
            NormalizedSlice,
            Placeholder,
            Reshape,
            Roll,
            SizeParam,
            Stack,
        )
        from pytato.distributed.nodes import DistributedRecv, DistributedSendRefHolder
        from pytato.function import NamedCallResult
        from pytato.loopy import LoopyCall
        from pytato.tags import ExpandedDimsReshape

        if id(x) in self.pos:
            return self.pos[id(x)]
        if not isinstance(x, Array):
            raise Unsupported(f"not an array: {type(x).__name__}")
        kids: list[int] = []

        def r(c: Any) -> int:
            p = self.rec(c)
            kids.append(p)
            return p

        nd: dict[str, Any]
        par: dict[str, Any] = {}          # non-child parameters (enter the sig)
        rdn: list[list[str]] = []
        if isinstance(x, NamedCallResult):
            raise HasFunctions()
        if isinstance(x, Placeholder):
            nd = {"kind": "in"}
            par = {"name": x.name}
        elif isinstance(x, SizeParam):
            nd = {"kind": "in"}
            par = {"name": x.name}
        elif isinstance(x, DataWrapper):
            nd = {"kind": "in"}
            par = {"data": data_name(np.asarray(x.data)), "name": getattr(x, "name", None)}
        elif isinstance(x, DistributedRecv):
            nd = {"kind": "in"}
            par = {"src": int(x.src_rank), "tag": repr(x.comm_tag)}
        elif isinstance(x, IndexLambda):
            bind = {k: r(v) for k, v in sorted(x.bindings.items())}
            rv = sorted(x.var_to_reduction_descr)
            nd = {"kind": "il", "expr": expr_to_json(x.expr, dict(x.bindings)),
                  "bind": bind, "rv": rv}
            rdn = [self._see(x.var_to_reduction_descr[v].tags) for v in rv]
            par = {"expr": nd["expr"], "names": sorted(bind), "rv": rv}
        elif isinstance(x, Stack):
            nd = {"kind": "stack", "arrays": [r(a) for a in x.arrays], "axis": int(x.axis)}
            par = {"axis": int(x.axis)}
        elif isinstance(x, Concatenate):
            nd = {"kind": "concat", "arrays": [r(a) for a in x.arrays], "axis": int(x.axis)}
            par = {"axis": int(x.axis)}
        elif isinstance(x, Roll):
            nd = {"kind": "roll", "a": r(x.array), "shift": int(x.shift), "axis": int(x.axis)}
            par = {"shift": int(x.shift), "axis": int(x.axis)}
        elif isinstance(x, AxisPermutation):
            nd = {"kind": "perm", "a": r(x.array),
                  "perm": [int(p) for p in x.axis_permutation]}
            par = {"perm": nd["perm"]}
        elif isinstance(x, Reshape):
            ex = [t for t in x.tags if isinstance(t, ExpandedDimsReshape)]
            nd = {"kind": "reshape", "a": r(x.array),
                  "expand": [[int(d) for d in ex[0].new_dims]] if ex else []}
            par = {"order": x.order, "newshape": _shape(x.newshape, self.params)}
        elif isinstance(x, (BasicIndex, AdvancedIndexInContiguousAxes,
                            AdvancedIndexInNoncontiguousAxes)):
            a = r(x.array)
            items: list[dict] = []
            pitems: list[Any] = []
            for i in x.indices:
                if isinstance(i, (int, np.integer)):
                    items.append({"t": "int", "v": int(i)})
                    pitems.append(int(i))
                elif isinstance(i, NormalizedSlice):
                    sl = [_dim(i.start, self.params), _dim(i.stop, self.params), int(i.step)]
                    if max(sl[:2]) >= SYMBOLIC and sl != [0, sl[1], 1]:
                        raise Unsupported("symbolic slice other than the whole axis")
                    items.append({"t": "nslice", "start": sl[0], "stop": sl[1], "step": sl[2]})
                    pitems.append(sl)
                elif isinstance(i, Array):
                    items.append({"t": "arr", "n": r(i)})
                    pitems.append("arr")
                else:
                    raise Unsupported(f"index item {i!r}")
            nd = {"kind": "index", "a": a, "idx": items}
            par = {"idx": pitems}
        elif isinstance(x, Einsum):
            args = [r(a) for a in x.args]
            rdims = sorted(x.redn_axis_to_redn_descr, key=lambda d: d.dim)
            if [d.dim for d in rdims] != list(range(len(rdims))):
                raise Unsupported("non-dense einsum reduction dims")
            acc = [[{"t": "e" if isinstance(d, EinsumElementwiseAxis) else "r", "d": int(d.dim)}
                    for d in ac] for ac in x.access_descriptors]
            nd = {"kind": "einsum", "args": args, "acc": acc}
            rdn = [self._see(x.redn_axis_to_redn_descr[d].tags) for d in rdims]
            par = {"acc": acc}
        elif isinstance(x, CSRMatmul):
            m = x.matrix
            nd = {"kind": "csr", "data": r(m.elem_values), "cols": r(m.elem_col_indices),
                  "rows": r(m.row_starts), "x": r(x.array)}
            rdn = [self._see(x.reduction_descr.tags)]
            par = {"mshape": _shape(m.shape, self.params)}
        elif isinstance(x, DistributedSendRefHolder):
            nd = {"kind": "alias", "a": r(x.passthrough_data), "send": r(x.send.data)}
            par = {"dest": int(x.send.dest_rank), "tag": repr(x.send.comm_tag)}
        elif isinstance(x, NamedArray):
            cont = x._container
            if isinstance(cont, DictOfNamedArrays):
                nd = {"kind": "alias", "a": r(cont._data[x.name])}
                par = {"name": x.name, "others": sorted(set(cont._data) - {x.name})}
                if par["others"]:
                    raise Unsupported("entry of a dictionary with several entries")
            elif isinstance(cont, LoopyCall):
                raise Unsupported("result of a loopy call")
            else:
                raise Unsupported(f"named array of {type(cont).__name__}")
        else:
            raise Unsupported(f"node kind {type(x).__name__}")
        nd["shape"] = _shape(x.shape, self.params)
        nd["ax"] = [self._see(a.tags) for a in x.axes]
        nd["rdn"] = rdn
        nd["kids"] = kids
        nd["cls"] = type(x).__name__
        nd["sig"] = _sha({"cls": nd["cls"], "par": par, "shape": nd["shape"],
                          "dtype": dt(x.dtype), "tags": _tl(x.tags)})
        self.nodes.append(nd)
        self.keep.append(x)
        self.pos[id(x)] = len(self.nodes)
        return len(self.nodes)


def roots_of(x: Any) -> dict[str, Any]:
    from pytato.array import Array, DictOfNamedArrays
    if isinstance(x, Array):
        return {"_out": x}
    if isinstance(x, DictOfNamedArrays):
        return {k: x._data[k] for k in sorted(x._data)}
    raise Unsupported(f"cannot find roots of {type(x).__name__}")


def export(x: Any) -> tuple[dict, dict[str, Any]]:
    """-> (graph, {tag name: tag object})"""
    ex = AxesExporter()
    outs = [{"name": k, "node": ex.rec(v)} for k, v in roots_of(x).items()]
    return {"nodes": ex.nodes, "outs": outs}, ex.tags


def correspondence(g: dict, h: dict) -> list[int] | None:
    """map[p-1] = position in h of node p of g, following outputs and children
    in lockstep; None if the two graphs do not have the same shape."""
    m: dict[int, int] = {}
    if [o["name"] for o in g["outs"]] != [o["name"] for o in h["outs"]]:
        return None
    todo = [(o["node"], o2["node"]) for o, o2 in zip(g["outs"], h["outs"])]
    while todo:
        p, q = todo.pop()
        if p in m:
            if m[p] != q:
                return None
            continue
        m[p] = q
        kp, kq = g["nodes"][p - 1]["kids"], h["nodes"][q - 1]["kids"]
        if len(kp) != len(kq):
            return None
        todo += list(zip(kp, kq))
    if len(m) != len(g["nodes"]):
        return None
    return [m[p] for p in range(1, len(g["nodes"]) + 1)]


def make_record(rid: str, a: dict, b: dict, c: dict | None, tags: dict[str, Any],
                tag_t: Any, redn: bool) -> dict:
    from pytato.transform.metadata import AxisIgnoredForPropagationTag
    m = correspondence(a, b)
    rec = {"id": rid, "a": a, "b": b, "map": m if m is not None else [],
           "prop": sorted(n for n, t in tags.items() if isinstance(t, tag_t)),
           "ign": sorted(n for n, t in tags.items()
                         if isinstance(t, AxisIgnoredForPropagationTag)),
           "redn": bool(redn)}
    if c is not None and m is not None:
        m2 = correspondence(b, c)
        rec["c"] = c
        rec["map2"] = m2 if m2 is not None else []
    return rec


# --------------------------------------------------------------------------
# the second voice: the rules of spec/PtAxes.tla, written again

def AV(p: int, i: int) -> int:
    return p * 64 + i


def RV(p: int, j: int) -> int:
    return p * 64 + 32 + j


def _walk(e: Any, subs: list, bounds: list) -> None:
    """all subscripts and all reduction bounds of an exported scalar expression"""
    if isinstance(e, dict):
        if e.get("k") == "sub":
            subs.append((e["a"], e["i"]))
        if e.get("k") == "red":
            for b in e["b"]:
                bounds.append(b)
        for v in e.values():
            _walk(v, subs, bounds)
    elif isinstance(e, list):
        for v in e:
            _walk(v, subs, bounds)


def slice_len(start: int, stop: int, step: int) -> int:
    return len(range(start, stop, step))


def node_equations(g: dict, p: int) -> tuple[list, list, list]:
    """-> (must, may, einsum-broadcast-reduction pairs) of node p (1-based)"""
    N = g["nodes"]
    n = N[p - 1]
    sh = lambda q: N[q - 1]["shape"]          # noqa: E731
    must: list = []
    may: list = []
    bc: list = []

    def by_len(length: int, pair: tuple) -> None:
        (may if length == 1 else must).append(pair)

    kd = n["kind"]
    nd = len(n["shape"])
    if kd == "in":
        pass
    elif kd == "stack":
        for q in n["arrays"]:
            for j in range(nd - 1):
                must.append((AV(q, j), AV(p, j + (j >= n["axis"]))))
    elif kd == "concat":
        for q in n["arrays"]:
            for j in range(nd):
                if j != n["axis"]:
                    must.append((AV(q, j), AV(p, j)))
                elif sh(q)[j] == n["shape"][j]:
                    may.append((AV(q, j), AV(p, j)))
    elif kd == "roll":
        for j in range(nd):
            if j != n["axis"]:
                must.append((AV(n["a"], j), AV(p, j)))
            elif n["shape"][j] == 0 or (n["shape"][j] < SYMBOLIC
                                        and n["shift"] % n["shape"][j] == 0):
                may.append((AV(n["a"], j), AV(p, j)))
    elif kd == "perm":
        for i, src in enumerate(n["perm"]):
            must.append((AV(n["a"], src), AV(p, i)))
    elif kd == "reshape":
        if n["expand"]:
            old = 0
            for i in range(nd):
                if i not in n["expand"][0]:
                    must.append((AV(n["a"], old), AV(p, i)))
                    old += 1
            if old != len(sh(n["a"])):
                raise Unsupported("expand_dims tag does not fit the operand")
    elif kd == "index":
        idx = n["idx"]
        if len(idx) != len(sh(n["a"])):
            raise SpecShape(p)
        advs = [k for k, it in enumerate(idx) if it["t"] in ("arr", "int")]
        arrs = [k for k, it in enumerate(idx) if it["t"] == "arr"]
        advanced = bool(arrs)
        bshape: tuple = ()
        if advanced:
            bshape = tuple(np.broadcast_shapes(*[tuple(sh(idx[k]["n"])) for k in arrs]))
        contiguous = advanced and advs == list(range(advs[0], advs[-1] + 1))
        res: list = []          # result axes: ("s", item) | ("b", block axis)
        block = [("b", i) for i in range(len(bshape))]
        if advanced and not contiguous:
            res += block
        for k, it in enumerate(idx):
            if it["t"] == "nslice":
                res.append(("s", k))
            if advanced and contiguous and k == advs[-1]:
                res += block
        want = [slice_len(idx[r[1]]["start"], idx[r[1]]["stop"], idx[r[1]]["step"])
                if r[0] == "s" else bshape[r[1]] for r in res]
        if want != n["shape"]:
            raise SpecShape(p)
        for ra, (what, k) in enumerate(res):
            if what == "s":
                it = idx[k]
                if (it["start"], it["stop"], it["step"]) == (0, sh(n["a"])[k], 1):
                    must.append((AV(n["a"], k), AV(p, ra)))
        if advanced:
            first_block = res.index(("b", 0)) if bshape else 0
            for k in arrs:
                q = idx[k]["n"]
                s = sh(q)
                off = len(bshape) - len(s)
                for t, length in enumerate(s):
                    if length == bshape[off + t]:
                        by_len(length, (AV(q, t), AV(p, first_block + off + t)))
    elif kd == "einsum":
        length: dict = {}
        for q, ac in zip(n["args"], n["acc"]):
            for j, d in enumerate(ac):
                key = (d["t"], d["d"])
                if length.get(key, 1) == 1:
                    length[key] = sh(q)[j]
        for q, ac in zip(n["args"], n["acc"]):
            for j, d in enumerate(ac):
                L = length[(d["t"], d["d"])]
                tgt = AV(p, d["d"]) if d["t"] == "e" else RV(p, d["d"])
                if sh(q)[j] == L:
                    by_len(L, (AV(q, j), tgt))
                elif d["t"] == "r":
                    bc.append((AV(q, j), tgt))
    elif kd == "csr":
        for j in range(1, nd):
            must.append((AV(n["x"], j), AV(p, j)))
        may.append((AV(n["data"], 0), RV(p, 0)))
        may.append((AV(n["cols"], 0), RV(p, 0)))
    elif kd == "alias":
        for j in range(nd):
            (must if "send" in n else may).append((AV(n["a"], j), AV(p, j)))
    elif kd == "il":
        subs: list = []
        bounds: list = []
        _walk(n["expr"], subs, bounds)
        for name, items in subs:
            if name not in n["bind"]:
                continue
            q = n["bind"][name]
            for j, it in enumerate(items):
                if j >= len(sh(q)):
                    continue
                if it.get("k") == "ix":
                    if it["d"] < nd and sh(q)[j] == n["shape"][it["d"]]:
                        by_len(sh(q)[j], (AV(q, j), AV(p, it["d"])))
                elif it.get("k") == "rv" and it["n"] in n["rv"]:
                    mine = [b for b in bounds if b["v"] == it["n"]]
                    full = bool(mine) and all(
                        b["lo"] == {"k": "c", "v": 0} and b["hi"] == {"k": "c", "v": sh(q)[j]}
                        for b in mine)
                    (must if full else may).append((AV(q, j), RV(p, n["rv"].index(it["n"]))))
    else:
        raise Unsupported(f"no axis rule for kind {kd}")
    return must, may, bc


class SpecShape(Exception):
    pass


def _components(edges: list, blocked: set, verts: set) -> dict[int, int]:
    """union-find over unblocked vertices"""
    parent = {v: v for v in verts if v not in blocked}

    def find(v: int) -> int:
        while parent[v] != v:
            parent[v] = parent[parent[v]]
            v = parent[v]
        return v
    for u, v in edges:
        if u in parent and v in parent:
            ru, rv = find(u), find(v)
            if ru != rv:
                parent[ru] = rv
    return {v: find(v) for v in parent}


def closure(verts: set, edges: list, blocked: set, src: dict[int, set], pt: set) -> dict[int, set]:
    comp = _components(edges, blocked, verts)
    per: dict[int, set] = {}
    for v, c in comp.items():
        per.setdefault(c, set()).update(src.get(v, set()) & pt)
    return {v: (set(per[comp[v]]) if v in comp else set()) for v in verts}


def var_name(g: dict, v: int) -> str:
    p, k = divmod(v, 64)
    n = g["nodes"][p - 1]
    return f"node{p}({n['cls']}).axis{k}" if k < 32 else f"node{p}({n['cls']}).redn{k - 32}"


def same_structure(g: dict, h: dict, m: list[int]) -> bool:
    if len(m) != len(g["nodes"]):
        return False
    for p, n in enumerate(g["nodes"], start=1):
        if not (1 <= m[p - 1] <= len(h["nodes"])):
            return False
        n2 = h["nodes"][m[p - 1] - 1]
        if n["sig"] != n2["sig"] or len(n["ax"]) != len(n2["ax"]) \
                or len(n["rdn"]) != len(n2["rdn"]) \
                or [m[k - 1] for k in n["kids"]] != n2["kids"]:
            return False
    if [(o["name"], m[o["node"] - 1]) for o in g["outs"]] != \
            [(o["name"], o["node"]) for o in h["outs"]]:
        return False
    return set(m) == set(range(1, len(h["nodes"]) + 1))


def judge(rec: dict) -> tuple[str, str]:
    """-> (clause, detail): the same decision procedure as PtAxesCheck.Clause"""
    if "raised" in rec:
        return judge_raised(rec)
    a, b, m = rec["a"], rec["b"], rec["map"]
    if not same_structure(a, b, m):
        return "structure", "the result differs from the input in more than axis tags"
    ax_vars, rd_vars = set(), set()
    t0: dict[int, set] = {}
    tr: dict[int, set] = {}
    for p, n in enumerate(a["nodes"], start=1):
        n2 = b["nodes"][m[p - 1] - 1]
        for i, tags in enumerate(n["ax"]):
            ax_vars.add(AV(p, i))
            t0[AV(p, i)] = set(tags)
            tr[AV(p, i)] = set(n2["ax"][i])
        for j, tags in enumerate(n["rdn"]):
            rd_vars.add(RV(p, j))
            t0[RV(p, j)] = set(tags)
            tr[RV(p, j)] = set(n2["rdn"][j])
    vs = ax_vars | rd_vars
    must: list = []
    may: list = []
    bc: list = []
    try:
        for p in range(1, len(a["nodes"]) + 1):
            mu, ma, b_ = node_equations(a, p)
            must += mu
            may += ma
            bc += b_
    except SpecShape as ex:
        return "spec_shape", f"node {ex.args[0]}"
    ign = set(rec["ign"])
    pt = set(rec["prop"]) - ign
    ign_ax = {v for v in ax_vars if t0[v] & ign}
    ign_rd = {v for v in rd_vars if t0[v] & ign}
    src_ax = {v: (t0[v] if v in ax_vars else set()) for v in vs}
    for v in sorted(vs):
        if not t0[v] <= tr[v]:
            return "tag_removed", f"{var_name(a, v)} lost {sorted(t0[v] - tr[v])}"
    if not rec["redn"]:
        for v in sorted(rd_vars):
            if tr[v] != t0[v]:
                return "redn_touched", f"{var_name(a, v)} got {sorted(tr[v] - t0[v])}"
    for v in sorted(vs):
        if not (tr[v] - t0[v]) <= pt:
            return "foreign_tag", f"{var_name(a, v)} got {sorted(tr[v] - t0[v] - pt)}"
    lower = closure(vs, must, ign_ax | ign_rd, src_ax, pt)
    judged = vs if rec["redn"] else ax_vars
    for v in sorted(judged):
        if not lower[v] <= tr[v]:
            return "missing", f"{var_name(a, v)} lacks {sorted(lower[v] - tr[v])}"

    br = [(u, v) for u in ax_vars for v in ax_vars if u < v and src_ax[u] & src_ax[v] & pt]

    def extras(bridged: bool, f2: bool) -> list:
        up = closure(vs, must + may + (br if bridged else []), ign_ax, t0, pt)
        out = []
        for v in sorted(judged):
            allowed = t0[v] | up[v]
            if f2:
                for u, w in bc:
                    if w == v:
                        allowed = allowed | up[u]
            if not tr[v] <= allowed:
                out.append((v, sorted(tr[v] - allowed)))
        return out
    ex = extras(False, False)
    if ex:
        det = "; ".join(f"{var_name(a, v)} got {t}" for v, t in ex[:4])
        if not extras(True, False):
            return "extra_via_shared_tag", det
        if not extras(False, True):
            return "extra_einsum_bcast_redn", det
        if not extras(True, True):
            return "extra_via_shared_tag+einsum_bcast_redn", det
        return "extra", det
    if "c" in rec:
        c, m2 = rec["c"], rec["map2"]
        if not same_structure(b, c, m2):
            return "structure2", "the second run changed more than axis tags"
        for p, n in enumerate(a["nodes"], start=1):
            n2 = b["nodes"][m[p - 1] - 1]
            n3 = c["nodes"][m2[m[p - 1] - 1] - 1]
            if [sorted(t) for t in n3["ax"]] != [sorted(t) for t in n2["ax"]] or \
                    [sorted(t) for t in n3["rdn"]] != [sorted(t) for t in n2["rdn"]]:
                return "not_idempotent", f"node{p}({n['cls']}): {n2['ax']} {n2['rdn']} -> " \
                                         f"{n3['ax']} {n3['rdn']}"
    return "ok", ""


def judge_raised(rec: dict) -> tuple[str, str]:
    """the run ended with NonUniqueTagError: allowed iff some axis may receive
    two tags that exclude each other"""
    a = rec["a"]
    ax_vars, rd_vars = set(), set()
    t0: dict[int, set] = {}
    for p, n in enumerate(a["nodes"], start=1):
        for i, tags in enumerate(n["ax"]):
            ax_vars.add(AV(p, i))
            t0[AV(p, i)] = set(tags)
        for j, tags in enumerate(n["rdn"]):
            rd_vars.add(RV(p, j))
            t0[RV(p, j)] = set(tags)
    vs = ax_vars | rd_vars
    must: list = []
    may: list = []
    bc: list = []
    try:
        for p in range(1, len(a["nodes"]) + 1):
            mu, ma, b_ = node_equations(a, p)
            must += mu
            may += ma
            bc += b_
    except SpecShape as ex:
        return "spec_shape", f"node {ex.args[0]}"
    ign = set(rec["ign"])
    pt = set(rec["prop"]) - ign
    ign_ax = {v for v in ax_vars if t0[v] & ign}
    src_ax = {v: (t0[v] if v in ax_vars else set()) for v in vs}
    judged = vs if rec["redn"] else ax_vars

    br = [(u, v) for u in ax_vars for v in ax_vars if u < v and src_ax[u] & src_ax[v] & pt]

    def conflict(bridged: bool, f2: bool) -> bool:
        up = closure(vs, must + may + (br if bridged else []), ign_ax, t0, pt)
        for v in judged:
            allowed = t0[v] | up[v]
            if f2:
                for u, w in bc:
                    if w == v:
                        allowed = allowed | up[u]
            if any(set(g) <= allowed for g in rec["groups"]):
                return True
        return False
    if conflict(False, False):
        return "ok", ""
    if conflict(True, False):
        return "unique_error_via_shared_tag", rec["raised"]
    if conflict(False, True):
        return "unique_error_einsum_bcast_redn", rec["raised"]
    return "unexpected_unique_error", rec["raised"]


def conflicting_pairs(tags: dict[str, Any]) -> list[list[str]]:
    """pairs of tag names that pytools refuses on one Taggable (asked of
    pytools itself, not modelled)"""
    from pytools.tag import NonUniqueTagError, check_tag_uniqueness
    out = []
    names = sorted(tags)
    for i, x in enumerate(names):
        for y in names[i + 1:]:
            try:
                check_tag_uniqueness(frozenset({tags[x], tags[y]}))
            except NonUniqueTagError:
                out.append([x, y])
    return out


def n_axis_vars(g: dict) -> int:
    return sum(len(n["ax"]) + len(n["rdn"]) for n in g["nodes"])
