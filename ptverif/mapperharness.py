"""Harness for C13 / C20: cached mappers and graph analyses.

Four independent pieces:

* ``reflect``      an INDEPENDENT enumeration of a pytato graph: a walk over
                   dataclass fields (never through pytato's mappers), giving
                   every node a number, its children with edge kinds, and its
                   structural class (a congruence computed from the non-array
                   field values and the classes of the children).
* ``build_t1`` ... instantiate an abstract DAG shape (children as sequences
                   of smaller node numbers + a congruence marking structural
                   duplicates, as enumerated by spec/PtMapper.tla) as REAL
                   pytato DAGs, so that every edge kind occurs at every
                   position; ladders; API-built ("semantic") graphs.
* ``Recorder``     a sys.setprofile hook that sees every ``map_*`` / ``rec``
                   frame of every ``Mapper`` (also in classes rewritten by
                   optimize_mapper), plus wrappers around
                   CachedMapperCache.add/retrieve that log keys, results and
                   collisions.
* ``MAPPERS``      every mapper class / mapper-based function under pytato.*,
                   discovered reflectively, with a table of constructor
                   arguments and documented exemptions.
"""
from __future__ import annotations

import dataclasses
import sys
from collections.abc import Mapping
from dataclasses import dataclass, field
from typing import Any, Callable

import numpy as np

# --------------------------------------------------------------------------
# 1. reflective walk

#: edge kinds by (class name, field path prefix); anything else is an error,
#: so that a new field of a new node kind is never silently ignored
EDGE_KINDS: dict[tuple[str, str], str] = {
    ("IndexLambda", "bindings"): "operand",
    ("IndexLambda", "shape"): "shape",
    ("Placeholder", "shape"): "shape",
    ("DataWrapper", "shape"): "shape",
    ("DistributedRecv", "shape"): "shape",
    ("Stack", "arrays"): "operand",
    ("Concatenate", "arrays"): "operand",
    ("Einsum", "args"): "operand",
    ("Roll", "array"): "operand",
    ("AxisPermutation", "array"): "operand",
    ("Reshape", "array"): "operand",
    ("Reshape", "newshape"): "newshape",
    ("BasicIndex", "array"): "operand",
    ("BasicIndex", "indices"): "index",
    ("AdvancedIndexInContiguousAxes", "array"): "operand",
    ("AdvancedIndexInContiguousAxes", "indices"): "index",
    ("AdvancedIndexInNoncontiguousAxes", "array"): "operand",
    ("AdvancedIndexInNoncontiguousAxes", "indices"): "index",
    ("CSRMatmul", "matrix"): "csr",
    ("CSRMatmul", "array"): "operand",
    ("DistributedSendRefHolder", "send"): "send",
    ("DistributedSendRefHolder", "passthrough_data"): "operand",
    ("NamedArray", "_container"): "container",
    ("LoopyCallResult", "_container"): "container",
    ("NamedCallResult", "_container"): "container",
    ("DictOfNamedArrays", "_data"): "entry",
    ("LoopyCall", "bindings"): "binding",
    ("Call", "bindings"): "binding",
}

def _pt():
    import pytato as pt
    return pt


def is_node(o: Any) -> bool:
    pt = _pt()
    return isinstance(o, (pt.Array, pt.AbstractResultWithNamedArrays))


def is_function(o: Any) -> bool:
    from pytato.function import FunctionDefinition
    return isinstance(o, FunctionDefinition)


def _fields(o: Any) -> list[tuple[str, Any]]:
    return [(f.name, getattr(o, f.name)) for f in dataclasses.fields(o)]


def _is_pt_dataclass(o: Any) -> bool:
    return (dataclasses.is_dataclass(o) and not isinstance(o, type)
            and type(o).__module__.startswith("pytato"))


def _scan(v: Any, path: str, out: list[tuple[str, Any]]) -> None:
    """Collect (path, node-or-function) for every node / function definition
    inside the field value *v*, in container order."""
    if is_node(v) or is_function(v):
        out.append((path, v))
    elif isinstance(v, (tuple, list)):
        for i, e in enumerate(v):
            _scan(e, f"{path}[{i}]", out)
    elif isinstance(v, Mapping):
        for k, e in v.items():
            _scan(e, f"{path}[{k!r}]", out)
    elif isinstance(v, (set, frozenset)):
        for e in v:
            if is_node(e) or is_function(e) or _is_pt_dataclass(e):
                _scan(e, f"{path}{{}}", out)
    elif _is_pt_dataclass(v):
        for name, e in _fields(v):
            if name in ("tags", "non_equality_tags", "axes"):
                continue
            _scan(e, f"{path}.{name}", out)


def direct_children(o: Any) -> list[tuple[str, str, Any]]:
    """[(edge kind, path, child)] of node *o* in dataclass field order; the
    child is a node or (kind "function") a FunctionDefinition."""
    res: list[tuple[str, str, Any]] = []
    cname = type(o).__name__
    for name, v in _fields(o):
        found: list[tuple[str, Any]] = []
        _scan(v, name, found)
        for path, c in found:
            if is_function(c):
                kind = "function"
            else:
                kind = EDGE_KINDS.get((cname, name))
                if kind is None:
                    for klass in type(o).__mro__[1:]:
                        kind = EDGE_KINDS.get((klass.__name__, name))
                        if kind:
                            break
                if kind is None:
                    raise ReflectError(
                        f"no edge kind for an array in {cname}.{path}")
                if kind == "index" and (".start" in path or ".stop" in path):
                    kind = "slicebound"
            res.append((kind, path, c))
    return res


class ReflectError(Exception):
    pass


def _skel(v: Any, cls_of: Callable[[Any], Any]) -> Any:
    """Hashable skeleton of a field value, arrays replaced by their class."""
    if is_node(v) or is_function(v):
        return ("@", cls_of(v))
    if isinstance(v, (tuple, list)):
        return ("t", tuple(_skel(e, cls_of) for e in v))
    if isinstance(v, Mapping):
        return ("m", tuple(sorted(((repr(k), _skel(e, cls_of)) for k, e in v.items()),
                                  key=lambda kv: kv[0])))
    if isinstance(v, (set, frozenset)):
        return ("s", frozenset(_skel(e, cls_of) for e in v))
    if _is_pt_dataclass(v):
        return ("d", type(v).__name__,
                tuple((n, _skel(e, cls_of)) for n, e in _fields(v)
                      if n != "non_equality_tags"))
    if isinstance(v, np.ndarray):
        return ("nd", id(v))
    try:
        hash(v)
    except TypeError:
        return ("id", id(v))
    return ("v", type(v).__name__, v)


class Interner:
    """Structural classes, exact and global: two objects (of any graphs) get
    the same class number iff they are structurally equal -- same type, equal
    non-array field values (``non_equality_tags`` excluded, mappings compared
    by key), pairwise structurally equal children.  A DataWrapper is equal
    only to itself (documented).  Independent of pytato's __eq__/__hash__."""

    def __init__(self) -> None:
        self._by_sig: dict[Any, int] = {}
        self._by_id: dict[int, tuple[Any, int]] = {}      # keeps objects alive

    def known(self, o: Any) -> bool:
        return id(o) in self._by_id

    def cls(self, o: Any) -> int:
        """class of a node or function definition (computed bottom-up,
        iteratively: ladders are deep)"""
        if id(o) in self._by_id:
            return self._by_id[id(o)][1]
        st = [o]
        while st:
            x = st[-1]
            if id(x) in self._by_id:
                st.pop()
                continue
            kids = ([v for v in x.returns.values()] if is_function(x)
                    else [c for _, _, c in direct_children(x)])
            pend = [c for c in kids if id(c) not in self._by_id]
            if pend:
                st.extend(pend)
                continue
            st.pop()
            sig = self._local_sig(x)
            self._by_id[id(x)] = (x, self._by_sig.setdefault(sig, len(self._by_sig) + 1))
        return self._by_id[id(o)][1]

    def _local_sig(self, o: Any) -> Any:
        from pytato.array import DataWrapper
        if isinstance(o, DataWrapper):
            return ("DataWrapper", id(o))
        get = lambda c: self._by_id[id(c)][1]       # noqa: E731
        return (type(o).__name__,
                tuple((n, _skel(v, get)) for n, v in _fields(o)
                      if n != "non_equality_tags"))


@dataclass
class Graph:
    """Reflective image of one name space (the caller's graph, or one
    function body)."""
    interner: Interner
    objs: list[Any] = field(default_factory=list)          # node number-1 -> object
    num: dict[int, int] = field(default_factory=dict)      # id(obj) -> number (1-based)
    ch: list[list[int]] = field(default_factory=list)      # children numbers
    ek: list[list[str]] = field(default_factory=list)      # edge kinds
    paths: list[list[str]] = field(default_factory=list)
    fns: list[list[Any]] = field(default_factory=list)     # FunctionDefinitions referenced
    cls: list[int] = field(default_factory=list)           # global structural class
    rep: list[int] = field(default_factory=list)           # first node of this graph in the class
    roots: list[int] = field(default_factory=list)
    _cls2rep: dict[int, int] = field(default_factory=dict)

    @property
    def n(self) -> int:
        return len(self.objs)

    def kind(self, i: int) -> str:
        return type(self.objs[i - 1]).__name__

    def add(self, root: Any) -> int:
        """Number *root* and everything below it (post-order, field order);
        -> number of root."""
        if id(root) in self.num:
            return self.num[id(root)]
        stack: list[tuple[Any, list[tuple[str, str, Any]], int]] = [
            (root, direct_children(root), 0)]
        onstack = {id(root)}
        while stack:
            o, kids, i = stack.pop()
            while i < len(kids):
                c = kids[i][2]
                if is_function(c) or id(c) in self.num:
                    i += 1
                    continue
                if id(c) in onstack:
                    raise ReflectError("cycle in expression graph")
                stack.append((o, kids, i + 1))
                stack.append((c, direct_children(c), 0))
                onstack.add(id(c))
                break
            else:
                onstack.discard(id(o))
                self._number(o, kids)
        return self.num[id(root)]

    def _number(self, o: Any, kids: list[tuple[str, str, Any]]) -> None:
        self.objs.append(o)
        k = len(self.objs)
        self.num[id(o)] = k
        nodes = [(kd, p, c) for kd, p, c in kids if not is_function(c)]
        self.ch.append([self.num[id(c)] for _, _, c in nodes])
        self.ek.append([kd for kd, _, _ in nodes])
        self.paths.append([p for _, p, _ in nodes])
        self.fns.append([c for kd, _, c in kids if is_function(c)])
        c = self.interner.cls(o)
        self.cls.append(c)
        self.rep.append(self._cls2rep.setdefault(c, k))

    # -- derived
    def reach(self, i: int, follow: Callable[[str], bool] = lambda k: True) -> set[int]:
        seen, st = set(), [i]
        while st:
            k = st.pop()
            if k in seen:
                continue
            seen.add(k)
            st.extend(c for c, kd in zip(self.ch[k - 1], self.ek[k - 1]) if follow(kd))
        return seen

    def functions(self) -> list[Any]:
        out, seen = [], set()
        for fs in self.fns:
            for f in fs:
                if id(f) not in seen:
                    seen.add(id(f))
                    out.append(f)
        return out

    def has_dups(self) -> bool:
        return any(r != i + 1 for i, r in enumerate(self.rep))

    def export(self) -> dict:
        return {"n": self.n, "ch": self.ch, "ek": self.ek, "rep": self.rep,
                "kind": [self.kind(i + 1) for i in range(self.n)],
                "roots": self.roots}


def reflect(roots: Any, interner: Interner | None = None) -> Graph:
    g = Graph(interner or Interner())
    if not isinstance(roots, (list, tuple)):
        roots = [roots]
    for r in roots:
        g.roots.append(g.add(r))
    return g


# --------------------------------------------------------------------------
# 2. real instances of abstract DAG shapes

#: the templates of the structural ("T1") instances: name -> edge kinds that
#: the template realises.  Every interior node of an instance built with
#: scheme S uses template S if it is applicable to the node's arity and
#: children, otherwise the fallback "il".
T1_SCHEMES = ["il", "ilrev", "ilshape", "phshape", "recvshape", "dwshape", "stack",
              "concat", "einsum", "remap", "aidx", "ncidx", "csr", "send", "call",
              "dict", "loopy", "mixed0", "mixed1"]

_LOOPY_KNL: dict[int, Any] = {}


def _loopy_knl(k: int) -> Any:
    if k not in _LOOPY_KNL:
        import loopy as lp
        args = ", ".join(f"x{i}" for i in range(k))
        rhs = " + ".join(f"x{i}[i]" for i in range(k)) or "0"
        knl = lp.make_kernel(
            "{[i]: 0<=i<2}", f"out[i] = {rhs}",
            [*(lp.GlobalArg(f"x{i}", dtype=np.int64, shape=(2,)) for i in range(k)),
             lp.GlobalArg("out", dtype=np.int64, shape=(2,), is_output=True)],
            name=f"knl{k}", lang_version=(2018, 2))
        _LOOPY_KNL[k] = knl
    return _LOOPY_KNL[k]


class T1Builder:
    """Instantiates an abstract DAG (children sequences over smaller node
    numbers, congruence ``rep``) as a real pytato DAG using direct
    constructor calls, so that any array can sit at any field.  Structural
    only: the graphs are never evaluated.  Nodes of one class get equal
    labels (a tag ``BazTag(rep)`` / a name / a comm tag) and the same
    template; nodes of different classes get different labels."""

    def __init__(self, ch: list[list[int]], rep: list[int], scheme: str,
                 seed: int = 0, leaf: str = "ph",
                 allowed: list[str] | None = None) -> None:
        self.ch, self.rep, self.scheme, self.leaf = ch, rep, scheme, leaf
        self.allowed = allowed or [s for s in T1_SCHEMES if not s.startswith("mixed")]
        self.rng = np.random.default_rng(
            [seed, len(ch), sum(map(len, ch)), T1_SCHEMES.index(scheme)])
        #: number of axes of leaves and index lambdas (indexing templates need room)
        self.nd = 3 if scheme in ("aidx", "ncidx") else 1
        self.nodes: list[Any] = []
        self.templ: list[str] = []
        self._choice: dict[int, str] = {}

    # -- helpers
    def _tags(self, k: int) -> frozenset:
        from ptverif.usertags import BazTag
        return frozenset({BazTag(self.rep[k - 1])})

    @staticmethod
    def _axes(nd: int) -> tuple:
        from pytato.array import Axis
        return tuple(Axis(frozenset()) for _ in range(nd))

    def build(self) -> list[Any]:
        for k in range(1, len(self.ch) + 1):
            kids = [self.nodes[c - 1] for c in self.ch[k - 1]]
            r = self.rep[k - 1]
            if r != k:
                t = self.templ[r - 1]            # same class, same template
            elif not kids:
                t = "leaf"
            else:
                t = self.scheme
                if t.startswith("mixed"):
                    t = str(self.rng.choice(self.allowed))
            node = None
            if t != "leaf":
                try:
                    node = getattr(self, "t_" + t)(k, kids)
                    if node is not None:
                        self._probe(node)
                except Exception:      # noqa: BLE001  (template not applicable here)
                    node = None
                if node is None:
                    t = "il"
            if node is None:
                node = self.t_leaf(k) if t == "leaf" else self.t_il(k, kids)
                self._probe(node)
            self.nodes.append(node)
            self.templ.append(t)
        return self.nodes

    @staticmethod
    def _probe(node: Any) -> None:
        """the derived attributes mappers look at must be computable"""
        _ = (node.shape, node.dtype, node.ndim, node.axes, node.tags)
        if len(node.axes) != node.ndim:
            raise ValueError("axes/ndim mismatch")

    # -- templates
    def t_leaf(self, k: int) -> Any:
        import pytato as pt
        from pytato.distributed.nodes import DistributedRecv
        r = self.rep[k - 1]
        kind = self.leaf
        if kind == "mix":
            kind = ["ph", "recv", "dw", "const", "sp"][r % 5]
        if kind == "sp" and self.nd == 1:
            # a size parameter (shape ()) -- fine wherever the leaf is not indexed
            return pt.SizeParam(name=f"n{r}", tags=self._tags(k))
        if kind == "recv":
            return DistributedRecv(src_rank=0, comm_tag=r, shape=(2,) * self.nd,
                                   dtype=np.dtype(np.int64),
                                   axes=self._axes(self.nd), tags=self._tags(k))
        if kind == "dw" and r == k and self.rep.count(r) == 1:
            return pt.DataWrapper(np.zeros((2,) * self.nd, dtype=np.int64) + k, (2,) * self.nd,
                                  axes=self._axes(self.nd), tags=self._tags(k))
        if kind == "const":
            return self.t_il(k, [])
        return pt.Placeholder((2,) * self.nd, np.dtype(np.int64), f"p{r}",
                              axes=self._axes(self.nd), tags=self._tags(k))

    def _il(self, k: int, names: list[str], kids: list[Any], shape: tuple) -> Any:
        import pymbolic.primitives as prim
        import pytato as pt
        from constantdict import constantdict
        terms = [prim.Subscript(prim.Variable(nm), (0,) * c.ndim) if c.ndim
                 else prim.Variable(nm) for nm, c in zip(names, kids)]
        expr = prim.Sum(tuple(terms)) if len(terms) > 1 else (terms[0] if terms else 0)
        return pt.IndexLambda(expr=expr, shape=shape, dtype=np.dtype(np.int64),
                              bindings=constantdict(dict(zip(names, kids))),
                              var_to_reduction_descr=constantdict({}),
                              axes=self._axes(len(shape)), tags=self._tags(k))

    def t_il(self, k: int, kids: list[Any]) -> Any:
        return self._il(k, [f"_in{i}" for i in range(len(kids))], kids, (2,) * self.nd)

    def t_ilrev(self, k: int, kids: list[Any]) -> Any:
        # insertion order of the bindings is NOT the sorted order of the names
        if len(kids) < 2:
            return None
        return self._il(k, [f"_in{len(kids) - 1 - i}" for i in range(len(kids))], kids, (2,))

    def t_ilshape(self, k: int, kids: list[Any]) -> Any:
        # first child is the (array-valued) length of the result, rest operands
        return self._il(k, [f"_in{i}" for i in range(len(kids) - 1)], kids[1:], (kids[0],))

    def t_phshape(self, k: int, kids: list[Any]) -> Any:
        import pytato as pt
        return pt.Placeholder(tuple(kids), np.dtype(np.int64), f"p{self.rep[k - 1]}",
                              axes=self._axes(len(kids)), tags=self._tags(k))

    def t_recvshape(self, k: int, kids: list[Any]) -> Any:
        from pytato.distributed.nodes import DistributedRecv
        return DistributedRecv(src_rank=1, comm_tag=self.rep[k - 1], shape=tuple(kids),
                               dtype=np.dtype(np.int64), axes=self._axes(len(kids)),
                               tags=self._tags(k))

    def t_dwshape(self, k: int, kids: list[Any]) -> Any:
        import pytato as pt
        if self.rep.count(self.rep[k - 1]) > 1:
            return None             # data wrappers are never equal to one another
        return pt.DataWrapper(np.zeros((2,) * len(kids), np.int64), tuple(kids),
                              axes=self._axes(len(kids)), tags=self._tags(k))

    def t_stack(self, k: int, kids: list[Any]) -> Any:
        import pytato as pt
        return pt.Stack(tuple(kids), 0, axes=self._axes(kids[0].ndim + 1), tags=self._tags(k))

    def t_concat(self, k: int, kids: list[Any]) -> Any:
        import pytato as pt
        return pt.Concatenate(tuple(kids), 0, axes=self._axes(kids[0].ndim),
                              tags=self._tags(k))

    def t_einsum(self, k: int, kids: list[Any]) -> Any:
        import pytato as pt
        from constantdict import constantdict
        from pytato.array import (
            EinsumElementwiseAxis, EinsumReductionAxis, ReductionDescriptor)
        descrs, redn, j = [], {}, 0
        for c in kids:
            d = [EinsumElementwiseAxis(0)]
            for _ in range(c.ndim - 1):
                d.append(EinsumReductionAxis(j))
                redn[EinsumReductionAxis(j)] = ReductionDescriptor(frozenset())
                j += 1
            descrs.append(tuple(d))
        return pt.Einsum(tuple(descrs), tuple(kids), constantdict(redn),
                         axes=self._axes(1), tags=self._tags(k))

    def t_remap(self, k: int, kids: list[Any]) -> Any:
        import pytato as pt
        from pytato.array import NormalizedSlice
        if len(kids) != 1:
            return None
        c = kids[0]
        which = self.rep[k - 1] % 4
        if which == 0:
            return pt.Roll(c, 1, 0, axes=self._axes(c.ndim), tags=self._tags(k))
        if which == 1:
            return pt.AxisPermutation(c, tuple(range(c.ndim)), axes=self._axes(c.ndim),
                                      tags=self._tags(k))
        if which == 2:
            return pt.Reshape(c, (2,), "C", axes=self._axes(1), tags=self._tags(k))
        idx = tuple(NormalizedSlice(0, 1, 1) if i == 0 else 0 for i in range(c.ndim))
        return pt.BasicIndex(c, idx, axes=self._axes(1), tags=self._tags(k))

    def _adv(self, k: int, kids: list[Any], contiguous: bool) -> Any:
        import pytato as pt
        from pytato.array import NormalizedSlice
        if len(kids) < 2:
            return None
        c, idxs = kids[0], list(kids[1:])
        if contiguous:
            if c.ndim < len(idxs):
                return None
            ind = idxs + [NormalizedSlice(0, 1, 1)] * (c.ndim - len(idxs))
            cls = pt.AdvancedIndexInContiguousAxes
        else:
            if len(idxs) < 2 or c.ndim < len(idxs) + 1:
                return None
            ind = [idxs[0], NormalizedSlice(0, 1, 1), *idxs[1:]]
            ind += [NormalizedSlice(0, 1, 1)] * (c.ndim - len(ind))
            cls = pt.AdvancedIndexInNoncontiguousAxes
        node = cls(c, tuple(ind), axes=self._axes(1), tags=self._tags(k))
        nd = len(node.shape)
        return cls(c, tuple(ind), axes=self._axes(nd), tags=self._tags(k))

    def t_aidx(self, k: int, kids: list[Any]) -> Any:
        return self._adv(k, kids, True)

    def t_ncidx(self, k: int, kids: list[Any]) -> Any:
        return self._adv(k, kids, False)

    def t_csr(self, k: int, kids: list[Any]) -> Any:
        from pytato.array import CSRMatmul, CSRMatrix
        slots = [kids[i % len(kids)] for i in range(4)]
        m = CSRMatrix(shape=(2, 2), dtype=np.dtype(np.int64), elem_values=slots[0],
                      elem_col_indices=slots[1], row_starts=slots[2],
                      axes=self._axes(2), tags=frozenset())
        return CSRMatmul(m, slots[3], axes=self._axes(slots[3].ndim), tags=self._tags(k))

    def t_send(self, k: int, kids: list[Any]) -> Any:
        from pytato.distributed.nodes import DistributedSend, DistributedSendRefHolder
        if len(kids) > 2:
            return None
        send = DistributedSend(kids[0], dest_rank=1, comm_tag=self.rep[k - 1])
        return DistributedSendRefHolder(send, kids[-1])

    def t_call(self, k: int, kids: list[Any]) -> Any:
        import pytato as pt
        from constantdict import constantdict
        from pytato.function import Call, FunctionDefinition, ReturnType
        names = [f"a{i}" for i in range(len(kids))]
        params = [pt.Placeholder(c.shape if all(isinstance(d, int) for d in c.shape) else (2,),
                                 np.dtype(np.int64), nm, axes=self._axes(
                                     c.ndim if all(isinstance(d, int) for d in c.shape) else 1),
                                 tags=frozenset())
                  for nm, c in zip(names, kids)]
        body = self._il(k, [f"_in{i}" for i in range(len(kids))], params, (2,))
        fn = FunctionDefinition(frozenset(names), ReturnType.ARRAY,
                                constantdict({"_": body}), tags=frozenset())
        call = Call(fn, constantdict(dict(zip(names, kids))), tags=self._tags(k))
        return call["_"]

    def t_dict(self, k: int, kids: list[Any]) -> Any:
        import pytato as pt
        d = pt.DictOfNamedArrays({f"e{i}": c for i, c in enumerate(kids)},
                                 tags=self._tags(k))
        return d["e0"]

    def t_loopy(self, k: int, kids: list[Any]) -> Any:
        from constantdict import constantdict
        from pytato.loopy import LoopyCall
        knl = _loopy_knl(len(kids))
        call = LoopyCall(knl, constantdict({f"x{i}": c for i, c in enumerate(kids)}),
                         knl.default_entrypoint.name, tags=self._tags(k))
        return call["out"]


#: Templates used on ladders: the rails run through operand-like edges
#: (bindings, einsum args, CSR parts, send payloads, call bindings, dict
#: entries, loopy bindings).  Not used on ladders:
#:  * Stack / Concatenate / advanced indexing: pytato's own uncached
#:    ``dtype``/``shape`` properties look at every operand and are exponential
#:    on ladders -- a cost of building and probing, not of a mapper;
#:  * rails through SHAPE fields (ilshape, phshape, recvshape): array-valued
#:    shapes are documented to be affine expressions of size parameters, so a
#:    depth-60 chain of shapes of shapes is not a pytato program;
#:    ``EqualityComparer.map_placeholder`` / ``map_distributed_recv`` compare
#:    shapes with an un-memoised ``==`` and would be exponential there (noted in
#:    notes/mapper.md as an observation, not a violation).
LADDER_SCHEMES = ["il", "ilrev", "einsum", "csr", "send", "call", "dict", "loopy"]


def build_t1(ch: list[list[int]], rep: list[int], scheme: str, *, seed: int = 0,
             leaf: str = "ph", root: str = "array",
             allowed: list[str] | None = None) -> tuple[Any, list[Any], list[str]]:
    """-> (root object, main real node of every abstract node, template used
    per node).  root = "array": the node itself; "dict": a DictOfNamedArrays
    with the root and node 1 as outputs."""
    b = T1Builder(ch, rep, scheme, seed, leaf, allowed)
    nodes = b.build()
    r: Any = nodes[-1]
    if root == "dict":
        import pytato as pt
        r = pt.DictOfNamedArrays({"out0": nodes[-1], "out1": nodes[0]}, tags=frozenset())
    return r, nodes, b.templ


# --------------------------------------------------------------------------
# 3. observing the real mappers

_RETURN_OPS: frozenset[int] | None = None


def _return_ops() -> frozenset[int]:
    global _RETURN_OPS
    if _RETURN_OPS is None:
        import dis
        _RETURN_OPS = frozenset(dis.opmap[n] for n in
                                ("RETURN_VALUE", "RETURN_CONST", "RETURN_GENERATOR",
                                 "YIELD_VALUE") if n in dis.opmap)
    return _RETURN_OPS


class Recorder:
    """Observes, from outside, every ``rec`` / ``map_*`` frame whose ``self``
    is a pytato ``Mapper`` (or an ``EqualityComparer``) with a
    ``sys.setprofile`` hook -- this sees the calls that really happen, also in
    classes rewritten by ``optimize_mapper`` -- and every
    ``CachedMapperCache.add`` / ``retrieve`` (all subclasses) through wrappers
    installed for the duration of the recording.

    raw events (tuples, first item the tag):
      ("rec+", mapper, obj, extra)   ("rec-", mapper, obj, retval, unwound)
      ("map+", mapper, obj, name)    ("map-", mapper, obj, retval, unwound)
      ("add", cache, key, expr, result_given, result_stored)
      ("get", cache, key, expr, result)    ("collision", cache, key, expr)
      ("dup", cache, key, expr)
    Objects are kept alive until the recorder is dropped, so ids are unique.
    """

    def __init__(self) -> None:
        self.raw: list[tuple] = []
        self._saved: list[tuple[type, str, Any]] = []
        self._types: tuple[type, ...] = ()
        self._codes: dict[Any, str] = {}
        self._known_types: set[type] = set()
        self._not_mapper: set[Any] = set()

    # -- which frames are mapper frames
    def _register(self, cls: type) -> None:
        """Remember the code objects behind every ``map_*`` attribute (also
        aliases such as ``map_roll = _map_index_remapping_base``, whose code
        name does not start with ``map_``) and behind ``rec`` /
        ``rec_function_definition`` of *cls*."""
        if cls in self._known_types:
            return
        self._known_types.add(cls)
        for name in dir(cls):
            kind = ("rec" if name in ("rec", "rec_function_definition")
                    else "map" if name.startswith("map_")
                    or name == "handle_unsupported_array" else None)
            if kind is None:
                continue
            f = getattr(cls, name, None)
            f = getattr(f, "__func__", f)
            code = getattr(f, "__code__", None)
            if code is not None and code.co_argcount >= 2:
                self._codes.setdefault(code, kind)

    def _register_all(self) -> None:
        def sub(c: type) -> None:
            self._register(c)
            for s in c.__subclasses__():
                sub(s)
        for base in self._types:
            sub(base)

    # -- profile hook
    def _hook(self, frame: Any, event: str, arg: Any) -> None:
        if event != "call" and event != "return":
            return
        code = frame.f_code
        kind = self._codes.get(code)
        if kind is None:
            # a class created after the recording started (or not a mapper frame)
            name = code.co_name
            if code in self._not_mapper or not (
                    name == "rec" or name.startswith("map_")
                    or name in ("rec_function_definition", "handle_unsupported_array")):
                return
            if code.co_argcount < 2 or code.co_varnames[0] != "self":
                self._not_mapper.add(code)
                return
            slf = frame.f_locals.get("self")
            if not isinstance(slf, self._types):
                return
            self._register(type(slf))
            kind = self._codes.get(code)
            if kind is None:
                return
        loc = frame.f_locals
        slf = loc.get(code.co_varnames[0])
        if not isinstance(slf, self._types):
            return
        obj = loc.get(code.co_varnames[1])
        is_rec = kind == "rec"
        if event == "call":
            if is_rec:
                extra = tuple(loc[v] for v in code.co_varnames[2:code.co_argcount])
                i = code.co_argcount + code.co_kwonlyargcount
                if code.co_flags & 0x04:
                    extra += tuple(loc[code.co_varnames[i]])
                    i += 1
                if code.co_flags & 0x08:
                    extra += tuple(sorted(loc[code.co_varnames[i]].items()))
                self.raw.append(("rec+", slf, obj, extra))
            else:
                self.raw.append(("map+", slf, obj, code.co_name))
        else:
            unwound = (arg is None
                       and code.co_code[frame.f_lasti] not in _return_ops())
            self.raw.append(("rec-" if is_rec else "map-", slf, obj, arg, unwound))

    # -- cache wrappers
    def _wrap_caches(self) -> None:
        from pytato.transform import (
            CacheCollisionError, CachedMapperCache, MapperCreatedDuplicateError)
        raw = self.raw

        def subclasses(c: type) -> list[type]:
            out = [c]
            for s in c.__subclasses__():
                out += subclasses(s)
            return out

        for cls in subclasses(CachedMapperCache):
            if "add" in cls.__dict__:
                orig_add = cls.__dict__["add"]

                def add(self: Any, inputs: Any, result: Any, _o: Any = orig_add) -> Any:
                    try:
                        stored = _o(self, inputs, result)
                    except MapperCreatedDuplicateError:
                        raw.append(("dup", self, inputs.key, inputs.expr, result))
                        raise
                    raw.append(("add", self, inputs.key, inputs.expr, result, stored))
                    return stored
                self._saved.append((cls, "add", orig_add))
                cls.add = add
            if "retrieve" in cls.__dict__:
                orig_get = cls.__dict__["retrieve"]

                def retrieve(self: Any, inputs: Any, _o: Any = orig_get) -> Any:
                    try:
                        res = _o(self, inputs)
                    except CacheCollisionError:
                        raw.append(("collision", self, inputs.key, inputs.expr))
                        raise
                    except KeyError:
                        raw.append(("miss", self, inputs.key, inputs.expr))
                        raise
                    raw.append(("get", self, inputs.key, inputs.expr, res))
                    return res
                self._saved.append((cls, "retrieve", orig_get))
                cls.retrieve = retrieve

    def __enter__(self) -> "Recorder":
        from pytato.equality import EqualityComparer
        from pytato.transform import Mapper
        self._types = (Mapper, EqualityComparer)
        self._register_all()
        self._wrap_caches()
        sys.setprofile(self._hook)
        return self

    def __exit__(self, *exc: Any) -> None:
        sys.setprofile(None)
        for cls, name, orig in reversed(self._saved):
            setattr(cls, name, orig)
        self._saved.clear()


@dataclass
class Trace:
    """Model-level events of ONE mapper instance.

    events: dicts {ev: enter|hit|return|collision|raise, obj, extra, res}
    (obj / res are Python objects; numbering happens at export)."""
    mapper: Any
    events: list[dict] = field(default_factory=list)
    tops: list[Any] = field(default_factory=list)      # objects of top-level calls
    counts: dict[int, int] = field(default_factory=dict)   # id(obj) -> map method invocations
    objs: dict[int, Any] = field(default_factory=dict)
    fn_counts: dict[int, int] = field(default_factory=dict)  # map_function_definition per id
    keys: list[Any] = field(default_factory=list)      # cache keys seen (add/get)
    direct: int = 0                                    # map_* invoked without rec


def derive_traces(raw: list[tuple]) -> dict[int, Trace]:
    """Fold the raw events into one Trace per mapper instance.

    * nested ``rec`` frames of one mapper before its map method runs (super()
      chains of optimize_mapper classes; CachedMapAndCopyMapper-style
      ``Mapper.rec(self, map_fn(expr))``) belong to the outermost ``rec``;
    * nested ``map_*`` frames on the node being mapped (``super().map_x``,
      ``map_basic_index -> _map_index_base``) are one invocation."""
    traces: dict[int, Trace] = {}
    stacks: dict[int, list[dict]] = {}
    cache_owner: dict[int, int] = {}
    active: list[int] = []             # mapper ids of the open rec frames (global)

    def tr(m: Any) -> Trace:
        if id(m) not in traces:
            traces[id(m)] = Trace(m)
            stacks[id(m)] = []
        return traces[id(m)]

    for ev in raw:
        tag = ev[0]
        if tag in ("rec+", "map+", "rec-", "map-"):
            m, obj = ev[1], ev[2]
            if not (is_node(obj) or is_function(obj)):
                continue       # e.g. Reprifier.rec on a tuple: transparent
            t = tr(m)
            st = stacks[id(m)]
            top = st[-1] if st else None
            isfn = is_function(obj)
        if tag == "rec+":
            if isfn:
                if top is not None and top.get("fn") and not top["entered"]:
                    top["depth"] += 1
                else:
                    st.append({"fn": True, "obj": obj, "entered": False, "depth": 1,
                               "mdepth": 0})
                continue
            if top is not None and not top["entered"] and not top.get("fn"):
                top["depth"] += 1           # folded
                top["alias"].add(id(obj))
            else:
                if not st:
                    t.tops.append(obj)
                st.append({"obj": obj, "extra": ev[3], "entered": False, "depth": 1,
                           "mdepth": 0, "alias": {id(obj)}, "collided": False})
                active.append(id(m))
        elif tag == "map+":
            if isfn or (top is not None and top.get("fn")):
                if top is not None and top.get("fn"):
                    if not top["entered"]:
                        top["entered"] = True
                        t.fn_counts[id(top["obj"])] = t.fn_counts.get(id(top["obj"]), 0) + 1
                        t.objs[id(top["obj"])] = top["obj"]
                    top["mdepth"] += 1
                else:
                    st.append({"fn": True, "obj": obj, "entered": True, "depth": 0,
                               "mdepth": 1})
                    t.fn_counts[id(obj)] = t.fn_counts.get(id(obj), 0) + 1
                    t.objs[id(obj)] = obj
                continue
            if top is not None and (not top["entered"] or id(obj) in top["alias"]):
                if not top["entered"]:
                    top["entered"] = True
                    top["alias"].add(id(obj))
                    o = top["obj"]
                    t.counts[id(o)] = t.counts.get(id(o), 0) + 1
                    t.objs[id(o)] = o
                    e = {"ev": "enter", "obj": o, "extra": top["extra"]}
                    if "key" in top:
                        e["key"] = top["key"]
                    t.events.append(e)
                top["mdepth"] += 1
            else:
                # a map method invoked directly (not through rec)
                t.direct += 1
                if not st:
                    t.tops.append(obj)
                st.append({"obj": obj, "extra": (), "entered": True, "depth": 0, "mdepth": 1,
                           "alias": {id(obj)}, "collided": False, "direct": True})
                active.append(id(m))
                t.counts[id(obj)] = t.counts.get(id(obj), 0) + 1
                t.objs[id(obj)] = obj
                t.events.append({"ev": "enter", "obj": obj, "extra": (), "direct": True})
        elif tag == "map-":
            if top is None:
                continue
            top["mdepth"] -= 1
            if top.get("fn"):
                if top["mdepth"] == 0 and top["depth"] == 0:
                    st.pop()
                continue
            if top["mdepth"] == 0 and top.get("direct"):
                st.pop()
                active.pop()
                t.events.append({"ev": "raise" if ev[4] else "return", "obj": top["obj"],
                                 "extra": (), "res": ev[3], "direct": True})
        elif tag == "rec-":
            if top is None:
                continue
            top["depth"] -= 1
            if top["depth"] > 0:
                continue
            st.pop()
            if top.get("fn"):
                continue
            active.pop()
            if top["collided"]:
                kind = "collision"
            elif "dup" in top:
                kind = "dup"
            elif ev[4]:
                kind = "raise"
            elif top["entered"]:
                kind = "return"
            else:
                kind = "hit"
            e = {"ev": kind, "obj": top["obj"], "extra": top["extra"], "res": ev[3]}
            if "key" in top:
                e["key"] = top["key"]
            if "added" in top:
                e["raw"], e["stored"] = top["added"]
            if "dup" in top:
                e["raw"] = top["dup"]
            t.events.append(e)
        elif tag in ("add", "get", "miss", "collision", "dup"):
            if is_function(ev[3]) or not active:
                continue
            mid = active[-1]
            t = traces[mid]
            t.keys.append(ev[2])
            top = stacks[mid][-1]
            if top.get("fn"):
                continue
            top["key"] = ev[2]
            if tag == "collision":
                top["collided"] = True
            elif tag == "dup":
                top["dup"] = ev[4]
            elif tag == "add":
                top["added"] = (ev[4], ev[5])
    return traces


# --------------------------------------------------------------------------
# 4. from an observed run to a record for spec/PtMapperTrace.tla

#: edge kinds no mapper is required to follow:
#:  newshape   pt.reshape documents "reshapes of arrays with symbolic shapes
#:             not yet implemented"; such a Reshape only arises from a direct
#:             constructor call
#:  slicebound array-valued start/stop of a NormalizedSlice: not in the
#:             property's list of dependencies, and the API refuses to slice
#:             an axis of symbolic length other than with a full slice
OPTIONAL_KINDS = frozenset({"newshape", "slicebound"})


def _key_head(key: Any) -> Any:
    while isinstance(key, tuple) and key:
        key = key[0]
    return key


def infer_variant(mapper: Any, trace: Trace, override: dict | None = None) -> dict:
    """What kind of cache the mapper instance has, from its attributes and the
    cache keys observed (never from its class name)."""
    from pytato.transform import (
        CachedMapper, CachedWalkMapper, TransformMapperCache, WalkMapper)
    cache = getattr(mapper, "_cache", None)
    v: dict[str, Any] = {}
    if isinstance(mapper, CachedMapper) and isinstance(cache, TransformMapperCache):
        v["family"] = "transform"
    elif isinstance(mapper, WalkMapper):
        v["family"] = "walk"
    else:
        v["family"] = "combine"
    v["cached"] = isinstance(mapper, (CachedMapper, CachedWalkMapper))
    # the key function is probed on the first visited node (the effective key
    # of the optimize_mapper classes is what get_cache_key returns: their
    # generated rec() pre-checks id(expr) and then defers to
    # CachedWalkMapper.rec); observed cache keys are the fallback
    keys: list[Any] = []
    first = next((e for e in trace.events if e["ev"] in ("enter", "hit")), None)
    if first is not None and hasattr(mapper, "get_cache_key"):
        try:
            keys = [mapper.get_cache_key(first["obj"], *first["extra"])]
        except Exception:       # noqa: BLE001
            keys = []
    if not keys:
        keys = list(trace.keys)
    v["extra"] = bool(keys) and isinstance(keys[0], tuple)
    head = _key_head(keys[0]) if keys else None
    v["key"] = "id" if isinstance(head, int) else "expr"
    v["keyknown"] = bool(keys) and (isinstance(head, int) or is_node(head))
    v["errcol"] = bool(isinstance(mapper, CachedMapper)
                       and getattr(cache, "err_on_collision", False))
    v["errdup"] = bool(v["family"] == "transform"
                       and getattr(cache, "err_on_created_duplicate", False))
    v["ident"] = False
    v["bound"] = False
    v.update(override or {})
    if not v["cached"]:
        v["key"], v["errcol"], v["errdup"] = "id", False, False
    return v


def _masked_sig(o: Any, interner: Interner) -> Any:
    return (type(o).__name__,
            tuple((n, _skel(v, lambda c: interner.cls(c) if is_function(c) else 0))
                  for n, v in _fields(o) if n != "non_equality_tags"))


class _Canon:
    """small integers for extra arguments / opaque results"""

    def __init__(self) -> None:
        self.items: list[Any] = []

    def num(self, x: Any) -> int:
        for i, y in enumerate(self.items):
            if x is y:
                return i + 1
        try:
            for i, y in enumerate(self.items):
                if type(x) is type(y) and not is_node(x) and bool(x == y):
                    return i + 1
        except Exception:       # noqa: BLE001
            pass
        self.items.append(x)
        return len(self.items)


def export_trace(trace: Trace, variant: dict, interner: Interner, rid: str,
                 skip_kinds: frozenset[str] = OPTIONAL_KINDS,
                 graph: Graph | None = None,
                 skip_nodes: frozenset[str] = frozenset()) -> tuple[dict, Graph]:
    """-> (record for PtMapperTrace, the reflective graph it refers to)"""
    v = variant
    g = graph if graph is not None else reflect(trace.tops, interner)
    for e in trace.events:
        if id(e["obj"]) not in g.num:
            g.add(e["obj"])            # visited, but not below any top-level call
    n0 = g.n
    fresh: dict[int, int] = {}
    keep: list[Any] = []

    def objnum(o: Any) -> int:
        if id(o) in g.num:
            return g.num[id(o)]
        if id(o) not in fresh:
            fresh[id(o)] = n0 + len(fresh) + 1
            keep.append(o)
        return fresh[id(o)]

    xs, rs = _Canon(), _Canon()

    def xnum(e: dict) -> int:
        if not v["extra"]:
            return 0
        if "key" in e and isinstance(e["key"], tuple):
            return xs.num(tuple(id(k) if is_node(k) else k for k in e["key"][1:]))
        return xs.num(tuple(id(k) if is_node(k) else k for k in e["extra"]))

    def resnum(o: Any) -> int:
        if v["family"] == "transform":
            return objnum(o) if is_node(o) else -1
        if v["family"] == "walk":
            return 0
        return rs.num(o)

    events, outcome = [], "ok"
    for e in trace.events:
        k = g.num[id(e["obj"])]
        out: dict[str, Any] = {"ev": e["ev"], "n": k, "x": xnum(e), "res": 0}
        if e["ev"] == "raise":
            outcome = "raise"
            break
        if e["ev"] in ("return", "dup") and v["family"] == "transform":
            raw = e.get("raw")
            if raw is None or not is_node(raw):
                out.update(raw=-1, rawcl=-1, fresh=False, lbl=False, och=[], fsame=True)
            else:
                was_known = id(raw) in g.num or id(raw) in fresh
                node = e["obj"]
                kids = {p: c for kd, p, c in direct_children(raw) if not is_function(c)}
                och = [objnum(kids.pop(p)) if p in kids else 0 for p in g.paths[k - 1]]
                if kids:
                    och.append(-1)
                fn_a = [c for _, _, c in direct_children(raw) if is_function(c)]
                fn_b = [c for _, _, c in direct_children(node) if is_function(c)]
                out.update(raw=objnum(raw), rawcl=interner.cls(raw), fresh=not was_known,
                           fsame=len(fn_a) == len(fn_b) and all(
                               a is b for a, b in zip(fn_a, fn_b)),
                           lbl=_masked_sig(raw, interner) == _masked_sig(node, interner),
                           och=och)
            if e["ev"] == "return":
                out["res"] = resnum(e.get("stored", e["res"]))
                out["ret"] = resnum(e["res"])
        elif e["ev"] == "return":
            out["res"] = resnum(e.get("stored", e["res"]))
        elif e["ev"] == "hit":
            out["res"] = resnum(e["res"])
        events.append(out)
        if e["ev"] in ("collision", "dup"):
            outcome = e["ev"]
            break
    need = [[p + 1 for p, kd in enumerate(g.ek[k])
             if kd not in skip_kinds and g.kind(k + 1) not in skip_nodes]
            for k in range(g.n)]
    rec = {"id": rid, "v": {k: v[k] for k in ("family", "key", "extra", "cached", "errcol",
                                              "errdup", "ident", "bound")},
           "n": g.n, "ch": g.ch, "rep": g.rep, "cls": g.cls, "need": need,
           "events": events, "outcome": outcome,
           # not read by the specification: for reports
           "kind": [g.kind(k + 1) for k in range(g.n)], "ek": g.ek}
    return rec, g


# --------------------------------------------------------------------------
# 5. every mapper class under pytato.*, and how to exercise it

def discover_mappers() -> dict[str, type]:
    """Every class under pytato.* that derives from pytato.transform.Mapper,
    found by importing every module (classes rewritten by optimize_mapper
    report __module__ 'builtins', so membership of the module's namespace is
    what counts)."""
    import importlib
    import pkgutil

    import pytato
    from pytato.transform import Mapper
    found: dict[str, type] = {}
    for mi in pkgutil.walk_packages(pytato.__path__, "pytato."):
        try:
            mod = importlib.import_module(mi.name)
        except Exception:          # noqa: BLE001   (e.g. pyopencl-only modules)
            continue
        for name, c in vars(mod).items():
            if isinstance(c, type) and issubclass(c, Mapper):
                home = c.__module__ if c.__module__.startswith("pytato") else mi.name
                if home == mi.name:
                    found.setdefault(f"{home}.{name}", c)
    from pytato.equality import EqualityComparer
    found["pytato.equality.EqualityComparer"] = EqualityComparer
    return found


@dataclass
class Profile:
    """How one mapper class is exercised directly, and what the documentation
    exempts it from."""
    make: Callable[[Any, Graph], Any] | None = None   # (root, graph) -> instance
    call: Callable[[Any, Any], Any] | None = None     # (mapper, root) -> result
    override: dict = field(default_factory=dict)      # variant fields (ident, bound, ...)
    skip_kinds: frozenset[str] = OPTIONAL_KINDS
    skip_nodes: frozenset[str] = frozenset()   # node kinds whose children need not be visited
    functions: str = "enter"       # enter | skip (documented) | unsupported (raises)
    accept_exc: tuple = ()         # documented exceptions: (ExcType, substring)
    skip: str | None = None        # reason why the class is not instantiated directly
    semantic: bool = False         # needs API-built (meaningful) graphs
    clones: bool = True            # other instances of the class seen during the call are
    #                                clones for function bodies (validated too)
    note: str = ""


def _all_arrays(g: Graph) -> frozenset:
    """the universe of SubsetDependencyMapper: the leaf arrays (a universe of
    ALL arrays makes its frozenset operations compare every pair of
    structurally equal duplicates with a deep ==, minutes on the ladders)"""
    import pytato as pt
    return frozenset(o for i, o in enumerate(g.objs)
                     if isinstance(o, pt.Array) and not g.ch[i])


def make_profiles() -> dict[str, Profile]:
    import pytato as pt
    import pytato.analysis
    import pytato.codegen
    import pytato.distributed.verify
    import pytato.stringifier
    import pytato.transform.calls
    import pytato.transform.dead_code_elimination
    import pytato.visualization.dot  # noqa: F401
    from pytato.transform import CopyMapperWithExtraArgs

    from ptverif.usertags import BazTag, FooTag
    T = "pytato.transform."
    A = "pytato.analysis."
    abstract = "abstract base: defines no map methods of its own; exercised through "
    ni_call = (NotImplementedError, "")
    P: dict[str, Profile] = {}
    P[T + "Mapper"] = Profile(skip=abstract + "every other class")
    P[T + "CachedMapper"] = Profile(skip=abstract + "CombineMapper/TransformMapper subclasses")
    P[T + "TransformMapper"] = Profile(skip=abstract + "CopyMapper and subclasses")
    P[T + "TransformMapperWithExtraArgs"] = Profile(
        skip=abstract + "CopyMapperWithExtraArgs / EinsumDistributiveLawMapper")
    P[T + "CombineMapper"] = Profile(
        skip="abstract: combine() raises NotImplementedError; exercised through "
             "DependencyMapper, InputGatherer, SizeParamGatherer, TagCountMapper, ...")
    P[T + "CachedWalkMapper"] = Profile(
        skip="abstract: get_cache_key raises NotImplementedError; exercised through "
             "TopoSortMapper, NodeCountMapper, NodeMultiplicityMapper, ...")
    P[T + "CopyMapper"] = Profile(make=lambda r, g: pt.transform.CopyMapper(),
                                  override={"ident": True, "bound": True})
    P[T + "CopyMapper#nocheck"] = Profile(
        make=lambda r, g: pt.transform.CopyMapper(err_on_collision=False,
                                                  err_on_created_duplicate=False),
        override={"ident": True, "bound": True})

    class KeyedCopy(CopyMapperWithExtraArgs):          # the documented way to use extras
        def get_cache_key(self, expr, x):              # type: ignore[override]
            return (expr, x)

        def get_function_definition_cache_key(self, expr, x):   # type: ignore[override]
            return (expr, x)
    P[T + "CopyMapperWithExtraArgs"] = Profile(
        make=lambda r, g: KeyedCopy(), call=lambda m, r: m(r, 7),
        override={"ident": True, "bound": True}, functions="unsupported",
        accept_exc=((NotImplementedError, "Function definitions are purposefully left"),),
        note="instantiated through a 3-line subclass that supplies get_cache_key, as the "
             "base class requires of users that pass extra arguments")
    class IdKeyedCopy(pt.transform.CopyMapper):        # the key function of CodeGenPreprocessor
        def get_cache_key(self, expr):                 # type: ignore[override]
            return id(expr)

        def get_function_definition_cache_key(self, expr):      # type: ignore[override]
            return id(expr)
    P[T + "CopyMapper#idkey"] = Profile(
        make=lambda r, g: IdKeyedCopy(), override={"ident": True, "bound": True},
        note="a 4-line subclass keyed by id(expr): with structural duplicates every object "
             "is mapped, and TransformMapperCache.add must hand out the first-seen equal "
             "result")
    P[T + "Deduplicator"] = Profile(make=lambda r, g: pt.transform.Deduplicator(),
                                    override={"ident": True, "bound": True})
    P[T + "DependencyMapper"] = Profile(
        make=lambda r, g: pt.transform.DependencyMapper(), functions="skip",
        note="map_call: 'do not include arrays from the function's body'")
    P[T + "SubsetDependencyMapper"] = Profile(
        make=lambda r, g: pt.transform.SubsetDependencyMapper(_all_arrays(g)),
        functions="skip")
    P[T + "InputGatherer"] = Profile(make=lambda r, g: pt.transform.InputGatherer())
    P[T + "ListOfInputsGatherer"] = Profile(
        make=lambda r, g: pt.transform.ListOfInputsGatherer())
    P[T + "SizeParamGatherer"] = Profile(make=lambda r, g: pt.transform.SizeParamGatherer())
    P[T + "WalkMapper"] = Profile(make=lambda r, g: pt.transform.WalkMapper())
    P[T + "TopoSortMapper"] = Profile(
        make=lambda r, g: pt.transform.TopoSortMapper(), functions="skip",
        note="documented: does not consider the nodes inside a FunctionDefinition")
    P[T + "CachedMapAndCopyMapper"] = Profile(
        make=lambda r, g: pt.transform.CachedMapAndCopyMapper(lambda x: x),
        override={"ident": True, "bound": True})
    P[T + "CachedMapAndCopyMapper#retag"] = Profile(
        make=lambda r, g: pt.transform.CachedMapAndCopyMapper(
            lambda x: x.tagged(FooTag()) if isinstance(x, pt.Array)
            and not isinstance(x, (pt.NamedArray, pt.DistributedSendRefHolder)) else x),
        override={"bound": True})
    P[T + "UsersCollector"] = Profile(
        make=lambda r, g: pt.transform.UsersCollector(), functions="skip",
        note="map_function_definition: 'Instantiate another UsersCollector to traverse "
             "the callee function'")
    P[T + "DataWrapperDeduplicator"] = Profile(
        make=lambda r, g: pt.transform.DataWrapperDeduplicator(),
        override={"ident": True, "bound": True})
    P[A + "ListOfUsersCollector"] = Profile(
        make=lambda r, g: pt.analysis.ListOfUsersCollector(), functions="skip",
        override={"cached": True, "key": "id", "family": "walk"},
        note="own visited set keyed by id(expr)")
    P[A + "ListOfDirectPredecessorsGetter"] = Profile(
        skip="not a traversal: maps a single node to the list of its direct predecessors "
             "and never recurses; its results are judged by C20")
    P[A + "NodeCountMapper"] = Profile(make=lambda r, g: pt.analysis.NodeCountMapper(False))
    P[A + "NodeCountMapper#dups"] = Profile(
        make=lambda r, g: pt.analysis.NodeCountMapper(True))
    P[A + "NodeMultiplicityMapper"] = Profile(
        make=lambda r, g: pt.analysis.NodeMultiplicityMapper())
    P[A + "CallSiteCountMapper"] = Profile(make=lambda r, g: pt.analysis.CallSiteCountMapper())
    P[A + "TagCountMapper"] = Profile(
        make=lambda r, g: pt.analysis.TagCountMapper(BazTag), functions="unsupported",
        accept_exc=((NotImplementedError, "Mapping calls is context-dependent"),),
        note="inherits CombineMapper.map_call, documented as 'Derived classes must override'")
    P[A + "MaterializedNodeCollector"] = Profile(
        make=lambda r, g: pt.analysis.MaterializedNodeCollector())
    P["pytato.stringifier.Reprifier"] = Profile(
        make=lambda r, g: pt.stringifier.Reprifier(truncation_depth=10 ** 6),
        override={"cached": True, "key": "id", "extra": True, "family": "combine"},
        functions="skip", skip_kinds=OPTIONAL_KINDS | {"csr", "send"}, clones=False,
        note="own cache keyed by (id(expr), depth); instantiated with a truncation depth "
             "that never truncates (truncation is the documented exception to reaching "
             "every child); CSR matrices, sends and function bodies are foreign objects "
             "to it and are printed through their own repr() (fresh, truncating "
             "instances), not through this instance's rec")
    P["pytato.equality.EqualityComparer"] = Profile(
        skip="not a Mapper subclass (own rec over pairs, cache keyed by (id, id)); "
             "exercised separately: once per pair of nodes on equal copies of every graph")
    P["pytato.transform.calls.PlaceholderSubstitutor"] = Profile(
        make=lambda r, g: pt.transform.calls.PlaceholderSubstitutor(
            {o.name: o.tagged(FooTag()) for o in g.objs if isinstance(o, pt.Placeholder)}),
        override={"bound": True}, functions="skip", skip_nodes=frozenset({"Placeholder"}),
        note="map_function_definition: 'Only operates within the current stack frame'; "
             "map_placeholder: 'performs a simple replacement ... cannot recurse into the "
             "substitution' -- a placeholder is replaced wholesale, its shape is not mapped")
    P["pytato.transform.calls.Inliner"] = Profile(
        make=lambda r, g: pt.transform.calls.Inliner(), override={"ident": True, "bound": True},
        note="without InlineCallTag on any call it is a faithful copy")
    P["pytato.transform.calls.InlineMarker"] = Profile(
        make=lambda r, g: pt.transform.calls.InlineMarker(), override={"bound": True})
    P["pytato.transform.dead_code_elimination.DeadCodeEliminator"] = Profile(
        make=lambda r, g: pt.transform.dead_code_elimination.DeadCodeEliminator(),
        override={"ident": True, "bound": True},
        note="the structural graphs contain no pytato.zero call, so nothing is eliminated")
    P["pytato.distributed.verify._SeenNodesWalkMapper"] = Profile(
        make=lambda r, g: __import__("pytato.distributed.verify", fromlist=["x"])
        ._SeenNodesWalkMapper())
    from pytato.diagnostic import NameClashError
    P["pytato.codegen.NamesValidityChecker"] = Profile(
        make=lambda r, g: pt.codegen.NamesValidityChecker(),
        accept_exc=((NameClashError, "two separate instances"),),
        note="rejecting two distinct input objects of one name is its documented purpose "
             "(the instances with structural duplicates contain such inputs)")
    P["pytato.visualization.dot.ArrayToDotNodeInfoMapper"] = Profile(
        make=lambda r, g: pt.visualization.dot.ArrayToDotNodeInfoMapper(),
        functions="skip", skip_kinds=OPTIONAL_KINDS | {"shape"},
        note="a drawing: shapes are rendered as text (stringify_shape) instead of edges, "
             "and function definitions are collected in .functions and drawn by separate "
             "instances (get_dot_graph)")
    return P


# --------------------------------------------------------------------------
# 6. running one mapper on one graph

def _exc_ok(ex: BaseException, prof: Profile) -> bool:
    return any(isinstance(ex, t) and sub in str(ex) for t, sub in prof.accept_exc)


def all_functions(g: Graph) -> list[Any]:
    """function definitions reachable from g, including nested ones"""
    out: list[Any] = []
    seen: set[int] = set()
    todo = list(g.functions())
    while todo:
        f = todo.pop()
        if id(f) in seen:
            continue
        seen.add(id(f))
        out.append(f)
        todo += reflect(list(f.returns.values()), g.interner).functions()
    return out


def run_direct(pname: str, prof: Profile, root: Any, interner: Interner,
               case_id: str) -> dict:
    """Instantiate the mapper, call it on *root* under observation, and turn
    what happened into (a) records for PtMapperTrace and (b) harness-level
    findings (things outside the trace model: unexpected exceptions, function
    definitions not entered).  -> {"records": [...], "findings": [...], ...}"""
    g = reflect(root, interner)
    res: dict[str, Any] = {"records": [], "findings": [], "case": case_id, "mapper": pname,
                           "status": "ok"}
    try:
        mapper = prof.make(root, g)          # type: ignore[misc]
    except Exception as ex:      # noqa: BLE001
        res["status"] = f"cannot_instantiate:{type(ex).__name__}:{ex}"
        return res
    exc: BaseException | None = None
    out = None
    with Recorder() as rec:
        try:
            out = prof.call(mapper, root) if prof.call else mapper(root)
        except TimeoutError:         # the caller's CPU budget, not the mapper's doing
            raise
        except Exception as ex:      # noqa: BLE001
            exc = ex
    traces = derive_traces(rec.raw)
    main = traces.get(id(mapper))
    if main is None or not main.events:
        res["status"] = "no_events"
        if exc is not None and not _exc_ok(exc, prof):
            res["findings"].append({"clause": "unexpected_exception",
                                    "exc": type(exc).__name__,
                                    "what": f"{type(exc).__name__}: {exc}"[:300]})
        return res
    same_cls = [t for t in traces.values() if type(t.mapper) is type(mapper)
                and (prof.clones or t is main)]
    has_calls = bool(g.functions())
    for j, t in enumerate(same_cls):
        v = infer_variant(t.mapper, t, prof.override)
        recd, tg = export_trace(t, v, interner, f"{case_id}|{pname}|{j}", prof.skip_kinds,
                                graph=g if t is main else None, skip_nodes=prof.skip_nodes)
        recd["direct"] = t.direct
        res["records"].append(recd)
        if t is main:
            res["variant"] = v
            res["outcome"] = recd["outcome"]
            res["counts"] = {tg.num[k]: c for k, c in t.counts.items() if k in tg.num}
            if tg.num.get(id(t.events[0]["obj"])) != g.num[id(root)]:
                res["findings"].append({"clause": "machinery:first_event_not_on_root",
                                        "what": "first visit is not the root"})
            # result objects per node (for the comparison with the generator)
            resobj: dict[int, Any] = {}
            for e in t.events:
                if e["ev"] in ("return", "hit"):
                    resobj[tg.num[id(e["obj"])]] = e.get("stored", e.get("res"))
            res["_resobj"] = resobj
    res["_graph"] = g
    res["_out"] = out
    res["exc"] = None if exc is None else f"{type(exc).__name__}: {exc}"[:300]
    # -- exceptions other than the two the model knows
    if exc is not None and res.get("outcome") == "raise":
        ok = _exc_ok(exc, prof)
        if not ok:
            last = next((e for e in main.events if e["ev"] == "raise"), None)
            res["findings"].append({"clause": "unexpected_exception",
                                    "exc": type(exc).__name__,
                                    "nodekind": type(last["obj"]).__name__ if last else "",
                                    "what": f"{type(exc).__name__}: {exc}"[:300]})
        else:
            res["status"] = "documented_exception"
    # -- function definitions
    if exc is None and prof.functions == "enter" and has_calls:
        cached = res["variant"]["cached"]
        fcount: dict[int, int] = {}
        ncount: dict[int, int] = {}
        for t in same_cls:
            for k, c in t.fn_counts.items():
                fcount[k] = fcount.get(k, 0) + c
            for k, c in t.counts.items():
                ncount[k] = ncount.get(k, 0) + c
        by_cls: dict[int, int] = {}
        for f in all_functions(g):
            by_cls[interner.cls(f)] = by_cls.get(interner.cls(f), 0) + fcount.get(id(f), 0)
            if cached and fcount.get(id(f), 0) > 1:
                res["findings"].append({
                    "clause": "OncePerKey:function_definition_mapped_twice",
                    "what": f"map_function_definition ran {fcount[id(f)]} times for one "
                            f"FunctionDefinition"})
        for f in all_functions(g):
            if by_cls[interner.cls(f)] == 0:
                res["findings"].append({
                    "clause": "AllChildrenReached:function_definition_not_entered",
                    "what": "a FunctionDefinition reachable through a Call was never "
                            "passed to map_function_definition"})
                continue
            bg = reflect(list(f.returns.values()), interner)
            tot: dict[int, int] = {}
            for i, o in enumerate(bg.objs):
                tot[bg.cls[i]] = tot.get(bg.cls[i], 0) + ncount.get(id(o), 0)
            need = bg.reach
            reach: set[int] = set()
            for rt in bg.roots:
                reach |= need(rt, lambda kd: kd not in prof.skip_kinds)
            # inside a function body, too, a cached mapper maps each node once: the
            # callee mapper is one per body (all return values), not one per result
            if cached:
                twice = [o for o in bg.objs if ncount.get(id(o), 0) > 1]
                if twice and not res["variant"]["extra"]:
                    res["findings"].append({
                        "clause": "OncePerKey:function_body_node_mapped_twice",
                        "nodekind": type(twice[0]).__name__,
                        "what": f"{type(twice[0]).__name__} in a function body was mapped "
                                f"{ncount[id(twice[0])]} times (by several callee mappers)"})
            missing = [i for i in sorted(reach) if tot[bg.cls[i - 1]] == 0]
            if missing and fcount.get(id(f), 0) > 0:
                res["findings"].append({
                    "clause": "AllChildrenReached:function_body_node_not_visited",
                    "what": f"{bg.kind(missing[0])} in a function body never mapped"})
    return res


# --------------------------------------------------------------------------
# 7. ladders and API-built graphs

def ladder_shapes(depth: int) -> list[tuple[str, list[list[int]], list[int]]]:
    """Abstract DAGs with exponentially many root-to-leaf paths:
    two rails crossing at every level (2^depth paths), x = x + x doubling,
    and two structurally equal two-rail ladders under one root (duplicates)."""
    out = []
    ch: list[list[int]] = [[], []]
    for _ in range(depth):
        a, b = len(ch) - 1, len(ch)
        ch += [[a, b], [b, a]]
    ch.append([len(ch) - 1, len(ch)])
    out.append(("rails", ch, list(range(1, len(ch) + 1))))
    ch2: list[list[int]] = [[]]
    for _ in range(depth):
        ch2.append([len(ch2), len(ch2)])
    out.append(("doubling", ch2, list(range(1, len(ch2) + 1))))
    half = ch[:-1]
    n = len(half)
    ch3 = [list(c) for c in half] + [[x + n for x in c] for c in half] + [[n, 2 * n]]
    rep3 = list(range(1, n + 1)) + list(range(1, n + 1)) + [2 * n + 1]
    out.append(("rails_dup", ch3, rep3))
    return out


T2_VARIANTS = ["ew", "remap", "einsum", "mixed"]


def build_t2(ch: list[list[int]], rep: list[int], variant: str, *, seed: int = 0,
             symbolic: bool = False, root: str = "dict") -> Any:
    """The abstract DAG through the PUBLIC API (meaningful programs): every
    node is a 4x4 float64 array (or n x 4 with a size parameter); auxiliary
    nodes may appear.  Nodes of one class are built by the same calls."""
    import pytato as pt

    from ptverif.usertags import BazTag
    rng = np.random.default_rng([seed, len(ch), T2_VARIANTS.index(variant)])
    n0 = pt.make_size_param("n") if symbolic else 4
    nodes: list[Any] = []
    choice: dict[int, int] = {}
    for k in range(1, len(ch) + 1):
        kids = [nodes[c - 1] for c in ch[k - 1]]
        r = rep[k - 1]
        if r not in choice:
            choice[r] = int(rng.integers(0, 1000))
        w = choice[r]
        if not kids:
            if w % 3 == 0 and rep.count(r) == 1 and not symbolic:
                node = pt.make_data_wrapper(np.full((4, 4), float(r)))
            else:
                node = pt.make_placeholder(f"p{r}", (n0, 4), np.float64)
        else:
            a = kids[0]
            b = kids[1] if len(kids) > 1 else None
            c = kids[2] if len(kids) > 2 else None
            v = variant if variant != "mixed" else ["ew", "remap", "einsum"][w % 3]
            if v == "ew" or symbolic:
                node = [pt.sin(a), 2 * a, a + 1][w % 3] if b is None else (
                    [a + b, a * b, pt.maximum(a, b)][w % 3])
                if c is not None:
                    node = pt.where(pt.greater(node, c), node, c)
            elif v == "remap":
                if b is None:
                    node = [a.T, pt.roll(a, 1, 0), a[::-1, :], pt.reshape(a, (2, 8)).reshape(4, 4),
                            a[pt.make_placeholder("idx", (4,), np.int64)]][w % 5]
                else:
                    node = [pt.concatenate([a, b])[2:6], pt.stack([a, b])[w % 2],
                            pt.concatenate([a, b], axis=1)[:, ::2]][w % 3]
                    if c is not None:
                        node = pt.stack([node, c], axis=1)[:, 0, :] + c
            else:
                if b is None:
                    node = [pt.einsum("ij->ji", a), pt.einsum("ij,ij->ij", a, a),
                            pt.reshape(pt.einsum("ii->i", a), (4, 1)) * a][w % 3]
                else:
                    node = [a @ b, pt.einsum("ij,kj->ik", a, b), pt.einsum("ij,ij->ij", a, b)][w % 3]
                    if c is not None:
                        node = pt.einsum("ij,jk,kl->il", a, b, c) if w % 2 else node @ c
            node = node.tagged(BazTag(r))
        nodes.append(node)
    if root == "array":
        return nodes[-1]
    return pt.make_dict_of_named_arrays({"out0": nodes[-1], "out1": nodes[0] + nodes[-1]})


# --------------------------------------------------------------------------
# 8. mapper-based public functions (entry points) under observation

def _numpy_target() -> Any:
    from pytato.target.python import BoundPythonProgram, NumpyLikePythonTarget

    class NpTarget(NumpyLikePythonTarget):
        numpy_like_module_name = "numpy"
        numpy_like_module_name_shorthand = "_pt_np"

        def bind_program(self, program: Any, entrypoint: Any, expected_arguments: Any,
                         bound_arguments: Any) -> Any:
            return BoundPythonProgram(target=self, program=program, entrypoint=entrypoint,
                                      expected_arguments=expected_arguments,
                                      bound_arguments=bound_arguments)
    return NpTarget()


def entry_points() -> dict[str, Callable[[Any], Any]]:
    """name -> callable(root: DictOfNamedArrays); each is a mapper-based public
    function of pytato (or the documented way to drive a mapper class that is
    only reachable through one)."""
    import pytato as pt
    import pytato.analysis as an
    import pytato.transform as tr
    from pytato.tags import ImplStored
    from pytato.transform.calls import inline_calls, tag_all_calls_to_be_inlined
    from pytato.transform.dead_code_elimination import eliminate_dead_code
    from pytato.transform.einsum_distributive_law import (
        DoNotDistribute, apply_distributive_property_to_einsums)
    from pytato.transform.lower_to_index_lambda import to_index_lambda
    from pytato.transform.materialize import materialize_with_mpms
    from pytato.transform.metadata import unify_axes_tags
    from pytato.transform.remove_broadcasts_einsum import rewrite_einsums_with_no_broadcasts

    from ptverif.usertags import FooTag

    def dedup_then(f: Callable[[Any], Any]) -> Callable[[Any], Any]:
        return lambda r: f(tr.deduplicate(r))

    def lower_all(r: Any) -> Any:
        g = reflect(r)
        return [to_index_lambda(o) for o in g.objs
                if isinstance(o, pt.Array) and not isinstance(
                    o, (pt.InputArgumentBase, pt.NamedArray, pt.IndexLambda))]

    def gen_loopy(r: Any) -> Any:
        from ptverif import cexec
        return pt.generate_loopy(tr.deduplicate(r), target=cexec.make_target())

    def gen_numpy(r: Any) -> Any:
        from pytato.target.python.numpy_like import generate_numpy_like
        return generate_numpy_like(tr.deduplicate(r), _numpy_target(), "_pt_kernel", False,
                                   (), ())

    def preprocess(r: Any) -> Any:
        from ptverif import cexec
        return pt.codegen.preprocess(tr.deduplicate(r), cexec.make_target())

    def users_all(r: Any) -> Any:
        g = reflect(r)
        return [tr.rec_get_user_nodes(r, g.objs[0])]

    E: dict[str, Callable[[Any], Any]] = {
        "deduplicate": tr.deduplicate,
        "map_and_copy(identity)": lambda r: tr.map_and_copy(r, lambda x: x),
        "map_and_copy(retag)": dedup_then(lambda r: tr.map_and_copy(
            r, lambda x: x.tagged(FooTag()) if isinstance(x, pt.IndexLambda) else x)),
        "copy_dict_of_named_arrays": lambda r: tr.copy_dict_of_named_arrays(r, tr.CopyMapper()),
        "get_dependencies": dedup_then(tr.get_dependencies),
        "deduplicate_data_wrappers": tr.deduplicate_data_wrappers,
        "get_users": dedup_then(tr.get_users),
        "rec_get_user_nodes": dedup_then(users_all),
        "eliminate_dead_code": eliminate_dead_code,
        "materialize_with_mpms": dedup_then(materialize_with_mpms),
        "inline_calls": dedup_then(inline_calls),
        "tag_all_calls_to_be_inlined": dedup_then(tag_all_calls_to_be_inlined),
        "unify_axes_tags": dedup_then(unify_axes_tags),
        "rewrite_einsums_with_no_broadcasts": dedup_then(rewrite_einsums_with_no_broadcasts),
        "apply_distributive_property_to_einsums": dedup_then(
            lambda r: apply_distributive_property_to_einsums(r, lambda e: DoNotDistribute())),
        "to_index_lambda": lower_all,
        "get_dot_graph": pt.get_dot_graph,
        "get_nusers": an.get_nusers,
        "get_list_of_users": an.get_list_of_users,
        "get_num_nodes": lambda r: (an.get_num_nodes(r, count_duplicates=False),
                                    an.get_num_nodes(r, count_duplicates=True)),
        "get_node_type_counts": an.get_node_type_counts,
        "get_node_multiplicities": an.get_node_multiplicities,
        "get_num_call_sites": an.get_num_call_sites,
        "get_num_tags_of_type": dedup_then(lambda r: an.get_num_tags_of_type(r, ImplStored)),
        "collect_materialized_nodes": an.collect_materialized_nodes,
        "codegen.preprocess": preprocess,
        "generate_loopy": gen_loopy,
        "generate_numpy_like": gen_numpy,
        "repr": repr,
        "hash+eq": lambda r: (hash(r), r == r),
    }
    return E


#: per class (qualified name, without variant suffix): documented exemptions
#: for instances observed inside entry points
CLASS_RULES: dict[str, dict] = {
    "pytato.transform.materialize.MPMSMaterializer": {
        "skip_kinds": OPTIONAL_KINDS | {"shape"},
        "note": "documented: 'Does not attempt to materialize sub-expressions in "
                "pytato.Array.shape'"},
    "pytato.analysis.ListOfDirectPredecessorsGetter": {"nonrecursive": True},
    "pytato.transform.lower_to_index_lambda.ToIndexLambdaMapper": {"nonrecursive": True},
    "pytato.stringifier.Reprifier": {
        "skip_kinds": frozenset(set(EDGE_KINDS.values()) | {"slicebound", "function"}),
        "note": "repr() uses the default truncation depth 3 (documented): only "
                "OncePerKey / SharedMapsToOne are demanded of those instances"},
    "pytato.equality.EqualityComparer": {"nonrecursive": True},
    "pytato.target.loopy.codegen.CodeGenMapper": {"memo": True},
    "pytato.transform.metadata.AxesTagsEquationCollector": {"memo": True},
}

#: mapper classes outside the property's anchors (transform/__init__.py,
#: analysis, equality, stringifier) translate or ignore array-valued SHAPES by
#: design (code generators hand them to ShapeExpressionMapper /
#: ShapeToISLExpressionMapper; the axis-tag and einsum rewriters do not look at
#: them): for those, reaching shape components is not demanded
SEMANTIC_SKIP = OPTIONAL_KINDS | {"shape"}
#: ... and they evaluate ``d[name]`` through ``NamedArray.expr`` -- the entry
#: itself -- instead of visiting the dictionary the named array belongs to
#: (results of calls and loopy calls DO have to visit their container)
SEMANTIC_SKIP_NODES = frozenset({"NamedArray"})


def union_children_check(trace: Trace, g: Graph, skip_kinds: frozenset[str],
                         skip_nodes: frozenset[str] = frozenset()) -> list[int]:
    """For mappers that memoise INSIDE their map methods (the method runs on
    every use and returns early): a node's required children must have been
    visited under SOME invocation.  -> numbers of nodes with a missing child"""
    seen: dict[int, set[int]] = {}
    st: list[int] = []
    for e in trace.events:
        k = g.num[id(e["obj"])]
        if st and e["ev"] in ("enter", "hit"):
            seen.setdefault(st[-1], set()).add(k)
        if e["ev"] == "enter":
            seen.setdefault(k, set())
            st.append(k)
        elif e["ev"] in ("return", "raise", "dup") and st:
            st.pop()
    bad = []
    for k, vis in seen.items():
        need = {c for c, kd in zip(g.ch[k - 1], g.ek[k - 1]) if kd not in skip_kinds}
        if g.kind(k) in skip_nodes:
            need = set()
        if not need <= vis:
            bad.append(k)
    return bad


def class_name_of(mapper: Any, classes: dict[str, type]) -> str | None:
    for k, c in classes.items():
        if type(mapper) is c:
            return k
    return None


def run_entry(ename: str, fn: Callable[[Any], Any], root: Any, interner: Interner,
              case_id: str, profiles: dict[str, Profile], classes: dict[str, type]) -> dict:
    """Call a mapper-based public function under observation; every mapper
    instance it creates yields one record for PtMapperTrace."""
    res: dict[str, Any] = {"records": [], "findings": [], "case": case_id, "entry": ename,
                           "classes": {}, "status": "ok"}
    exc = None
    with Recorder() as rec:
        try:
            fn(root)
        except Exception as ex:      # noqa: BLE001
            exc = ex
    res["exc"] = None if exc is None else f"{type(exc).__name__}: {exc}"[:200]
    traces = derive_traces(rec.raw)
    for j, t in enumerate(traces.values()):
        cname = class_name_of(t.mapper, classes)
        if cname is None or not t.events:
            continue
        res["classes"][cname] = res["classes"].get(cname, 0) + 1
        rule = CLASS_RULES.get(cname, {})
        prof = profiles.get(cname)
        if rule.get("nonrecursive") or (prof is not None and prof.skip
                                        and "not a" in prof.skip):
            continue
        ov = dict(prof.override) if prof is not None else {}
        ov.pop("ident", None)             # inside an entry point nothing is known to be a copy
        ov.pop("bound", None)
        v = infer_variant(t.mapper, t, ov)
        skip_kinds = rule.get("skip_kinds", prof.skip_kinds if prof else SEMANTIC_SKIP)
        skip_nodes = prof.skip_nodes if prof else SEMANTIC_SKIP_NODES
        if rule.get("memo"):
            g = reflect(t.tops, interner)
            for e in t.events:
                if id(e["obj"]) not in g.num:
                    g.add(e["obj"])
            if exc is None:
                for k in union_children_check(t, g, skip_kinds, skip_nodes):
                    res["findings"].append({
                        "clause": "AllChildrenReached:child_never_visited",
                        "mapper": f"{cname}@{ename}", "nodekind": g.kind(k),
                        "what": f"a required child of a {g.kind(k)} was not visited under "
                                f"any invocation of its map method"})
            continue
        recd, _ = export_trace(t, v, interner, f"{case_id}|{cname}@{ename}|{j}", skip_kinds,
                               skip_nodes=skip_nodes)
        if recd["outcome"] == "raise" and exc is None:
            recd["outcome"] = "raise"      # an exception handled inside the entry point
        res["records"].append(recd)
    return res


# --------------------------------------------------------------------------
# 9. C20: the whole graph (all name spaces) as one typed DAG, and the real
#    analyses' answers about it

@dataclass
class FullGraph:
    """All name spaces flattened: nodes are arrays, containers and function
    definitions; a Call has an edge of kind "function" to its definition, a
    definition has edges of kind "returns" to the arrays it returns.  ns[k] is
    0 for the caller's name space and the number of the function definition
    node for nodes of a function body."""
    objs: list[Any] = field(default_factory=list)
    num: dict[int, int] = field(default_factory=dict)
    ch: list[list[int]] = field(default_factory=list)
    ek: list[list[str]] = field(default_factory=list)
    ns: list[int] = field(default_factory=list)
    cls: list[int] = field(default_factory=list)
    roots: list[int] = field(default_factory=list)

    @property
    def n(self) -> int:
        return len(self.objs)


def reflect_full(root: Any, interner: Interner) -> FullGraph:
    fg = FullGraph()

    def add_ns(roots: list[Any], ns: int) -> list[int]:
        g = reflect(roots, interner)
        local: dict[int, int] = {}
        for i, o in enumerate(g.objs):
            kids = list(g.ch[i])
            kinds = list(g.ek[i])
            fnodes = []
            for f in g.fns[i]:
                if id(f) not in fg.num:
                    # reserve the definition's number after its body
                    body_roots = add_ns(list(f.returns.values()), -id(f))
                    fg.objs.append(f)
                    fk = len(fg.objs)
                    fg.num[id(f)] = fk
                    fg.ch.append(body_roots)
                    fg.ek.append(["returns"] * len(body_roots))
                    fg.ns.append(ns)
                    fg.cls.append(interner.cls(f))
                    for j, nsv in enumerate(fg.ns):
                        if nsv == -id(f):
                            fg.ns[j] = fk
                fnodes.append(fg.num[id(f)])
            fg.objs.append(o)
            k = len(fg.objs)
            local[i + 1] = k
            if ns == 0 or True:
                fg.num.setdefault(id(o), k) if ns == 0 else None
            fg.ch.append(fnodes + [local[c] for c in kids])
            fg.ek.append(["function"] * len(fnodes) + kinds)
            fg.ns.append(ns)
            fg.cls.append(g.cls[i])
        return [local[r] for r in g.roots]

    fg.roots = add_ns([root], 0)
    # numbers of body nodes (a body object may also occur in the caller's graph)
    return fg


def _tagnames(o: Any) -> list[str]:
    try:
        return sorted({type(t).__name__ for t in o.tags})
    except Exception:       # noqa: BLE001
        return []


def export_analyses(root: Any, interner: Interner, rid: str) -> dict:
    """The record for spec/PtGraphCheck.tla: the reflectively exported typed
    DAG and what every graph analysis of pytato answered about it."""
    import pytato as pt
    import pytato.analysis as an
    import pytato.transform as tr
    from pytato.tags import ImplStored

    from ptverif.usertags import BazTag
    fg = reflect_full(root, interner)
    top = [k for k in range(1, fg.n + 1) if fg.ns[k - 1] == 0]
    numtop = {id(fg.objs[k - 1]): k for k in top}

    def nums(objs: Any) -> list[int]:
        out = []
        for o in objs:
            out.append(numtop.get(id(o), 0) if (is_node(o) or is_function(o)) else -1)
        return out

    def clss(objs: Any) -> list[int]:
        return sorted(interner.cls(o) if (is_node(o) or is_function(o)) else -1 for o in objs)

    def attempt(f: Callable[[], Any]) -> Any:
        try:
            return f()
        except Exception as ex:      # noqa: BLE001
            return {"raise": type(ex).__name__, "msg": str(ex)[:160]}

    isarr = [isinstance(o, pt.Array) for o in fg.objs]
    rec: dict[str, Any] = {
        "id": rid, "n": fg.n, "ch": fg.ch, "ek": fg.ek, "ns": fg.ns, "cls": fg.cls,
        "kind": [type(o).__name__ for o in fg.objs], "isarr": isarr,
        "roots": fg.roots,
        "outs": ([fg.roots[0]] if isarr[fg.roots[0] - 1] else
                 [c for c, kd in zip(fg.ch[fg.roots[0] - 1], fg.ek[fg.roots[0] - 1])
                  if kd == "entry"]),
        "stored": [isarr[k] and "ImplStored" in _tagnames(o) for k, o in enumerate(fg.objs)],
        "baz": [isarr[k] and "BazTag" in _tagnames(o) for k, o in enumerate(fg.objs)],
    }
    # arrays in the DERIVED shape of a node (its .shape attribute), as numbers
    dsh = []
    for k, o in enumerate(fg.objs):
        if isarr[k] and fg.ns[k] == 0:
            sh = attempt(lambda o=o: [d for d in o.shape if isinstance(d, pt.Array)])
            dsh.append([numtop.get(id(d), 0) for d in sh] if isinstance(sh, list) else [])
        else:
            dsh.append([])
    rec["dshape"] = dsh
    res: dict[str, Any] = {}
    # -- predecessors, node by node (top name space)
    lp = an.ListOfDirectPredecessorsGetter()
    lpf = an.ListOfDirectPredecessorsGetter(include_functions=True)
    # ONE DirectPredecessorsGetter per process, asked about the nodes of every graph this
    # process ever builds (the partitioner keeps such an object, too): graphs come and go,
    # addresses are recycled, and whatever the getter remembers must not be keyed by them
    dp = _LONG_LIVED.setdefault("dp", an.DirectPredecessorsGetter())
    preds, predsf, predset = [], [], []
    for k in range(1, fg.n + 1):
        o = fg.objs[k - 1]
        if fg.ns[k - 1] != 0 or is_function(o):
            preds.append([]), predsf.append([]), predset.append([])
            continue
        a = attempt(lambda o=o: nums(lp(o)))
        preds.append(a if isinstance(a, list) else [-9])
        a = attempt(lambda o=o: nums(lpf(o)))
        predsf.append(a if isinstance(a, list) else [-9])
        a = attempt(lambda o=o: nums(dp(o)))
        predset.append(a if isinstance(a, list) else [-9])
        if not isinstance(a, list):
            res.setdefault("preds_raise", []).append([k, a["raise"]])
    res["preds"], res["predsf"], res["predset"] = preds, predsf, predset
    # -- users
    lu = attempt(lambda: an.get_list_of_users(root))
    nu = attempt(lambda: an.get_nusers(root))
    uc = attempt(lambda: tr.get_users(root))

    def st(x: Any) -> str:
        return x["raise"] if isinstance(x, dict) and "raise" in x else "ok"
    res["lusers_st"] = st(lu) if st(lu) != "ok" else st(nu)
    res["users_st"] = st(uc)
    res["lusers_status"] = res["lusers_st"]
    res["users_status"] = res["users_st"]
    lusers, nusers, users, users_send = [], [], [], []
    for k in range(1, fg.n + 1):
        o = fg.objs[k - 1]
        ok_top = fg.ns[k - 1] == 0 and is_node(o)
        if ok_top and res["lusers_status"] == "ok" and isarr[k - 1]:
            lusers.append(nums(lu[o]) if o in lu else [])
            nusers.append(int(nu[o]))
        else:
            lusers.append([]), nusers.append(0)
        if ok_top and res["users_status"] == "ok":
            us = uc.get(o, None)
            users.append(sorted(nums([u for u in us if is_node(u)])) if us is not None else [-7])
            users_send.append(len([u for u in (us or ()) if not is_node(u)]))
        else:
            users.append([]), users_send.append(0)
    res.update(lusers=lusers, nusers=nusers, users=users, users_send=users_send)
    # keys of the user maps that are not nodes of the graph (by identity)
    if res["lusers_status"] == "ok":
        res["lusers_foreign"] = sum(1 for o in lu if id(o) not in numtop and lu[o])
    # rec_get_user_nodes for every top-level array
    ru = []
    for k in top:
        o = fg.objs[k - 1]
        if not isarr[k - 1]:
            continue
        a = attempt(lambda o=o: sorted(nums([u for u in tr.rec_get_user_nodes(root, o)
                                             if is_node(u)])))
        ru.append([k, a if isinstance(a, list) else [-9]])
    res["recusers"] = ru
    # -- topological order
    def topo() -> list[int]:
        m = tr.TopoSortMapper()
        m(root)
        return nums(m.topological_order)
    res["topo"] = attempt(topo)
    # -- counts
    res["numnodes_dup"] = attempt(lambda: an.get_num_nodes(root, count_duplicates=True))
    res["numnodes_nodup"] = attempt(lambda: an.get_num_nodes(root, count_duplicates=False))
    for flag, nm in ((True, "types_dup"), (False, "types_nodup")):
        a = attempt(lambda flag=flag: {t.__name__: c for t, c in
                                       an.get_node_type_counts(root, flag).items()})
        res[nm] = (sorted([k, v] for k, v in a.items()) if "raise" not in a
                   else {"raise": a["raise"], "msg": a.get("msg", "")})
    a = attempt(lambda: sorted([interner.cls(e), c] for e, c in
                               an.get_node_multiplicities(root).items()))
    res["mult"] = a
    res["tagcount"] = attempt(lambda: an.get_num_tags_of_type(root, BazTag))
    res["tagcount_stored"] = attempt(lambda: an.get_num_tags_of_type(root, ImplStored))
    res["callsites"] = attempt(lambda: an.get_num_call_sites(root))
    res["mat_out"] = attempt(lambda: clss(an.collect_materialized_nodes(root, True)))
    res["mat_noout"] = attempt(lambda: clss(an.collect_materialized_nodes(root, False)))
    # every answer X gets X_st = "ok" | name of the exception; raised answers become 0 / []
    for k in ("topo", "numnodes_dup", "numnodes_nodup", "types_dup", "types_nodup", "mult",
              "tagcount", "tagcount_stored", "callsites", "mat_out", "mat_noout"):
        v = res[k]
        res[k + "_st"] = st(v)
        if st(v) != "ok":
            res[k + "_msg"] = v.get("msg", "")
            if st(v) == "UnsupportedArrayError":      # ... of type <class 'x.y.Kind'>
                res[k + "_st"] += "/" + v.get("msg", "").rsplit(".", 1)[-1].strip("'>")
            res[k] = [] if k in ("topo", "types_dup", "types_nodup", "mult", "mat_out",
                                 "mat_noout") else 0
    rec["res"] = res
    return rec


# --------------------------------------------------------------------------
# 10. deterministic edge-kind witnesses (independent of VERIF_SEED)

_LONG_LIVED: dict[str, Any] = {}


def witness_graphs() -> dict[str, Any]:
    """API-built graphs, one per edge kind, in each of which some array is
    reachable ONLY through an edge of that kind (were it also an operand
    elsewhere, a mapper that skips the edge would still come across it and
    the omission would be hidden).  Built without any random choice, so every
    run -- whatever the seed -- pushes every entry point over every edge kind."""
    import loopy as lp
    import pytato as pt
    from pytato.distributed.nodes import make_distributed_recv, staple_distributed_send
    f8 = np.float64

    def ph(name: str, shape: tuple = (4, 4), dtype: Any = f8) -> Any:
        return pt.make_placeholder(name, shape, dtype)

    W: dict[str, Any] = {}
    x, y = ph("x"), ph("y")
    # operand only
    W["operand"] = {"out": pt.sin(x) + y @ x}
    # array-valued shape component: n is reachable only through shapes
    n = pt.make_size_param("n")
    a, b = ph("a", (n, 4)), ph("b", (n, 4))
    W["shape"] = {"out": a + 2 * b}
    # the shape of a DataWrapper
    m = pt.make_size_param("m")
    W["shape_dw"] = {"out": pt.make_data_wrapper(np.ones((3, 4)), shape=(m, 4)) + 1}
    # array index (contiguous): idx only sits in the index field
    idx = ph("idx", (4,), np.int64)
    W["index"] = {"out": x[idx] + 1}
    idx2 = ph("idx2", (4,), np.int64)
    W["index2"] = {"out": x[idx, idx2]}
    # non-contiguous advanced indices
    z = ph("z", (4, 4, 4))
    i1, i2 = ph("i1", (4,), np.int64), ph("i2", (4,), np.int64)
    W["index_nc"] = {"out": z[i1, :, i2] * 2}
    # an index array that is an expression, under an einsum
    W["index_einsum"] = {"out": pt.einsum("ij,jk->ik", x[(idx + 0) % 4], y)}
    # CSR parts: values / column indices / row starts only sit in the matrix
    ev = ph("ev", (8,))
    ec = ph("ec", (8,), np.int64)
    rs = ph("rs", (5,), np.int64)
    A = pt.make_csr_matrix((4, 4), ev, ec, rs)
    W["csr"] = {"out": A @ x}
    W["csr_vec"] = {"out": (A @ ph("v", (4,))) + 1}
    # send payload: pay is reachable only through the send
    pay = ph("pay")
    W["send"] = {"out": staple_distributed_send(pay * 2, dest_rank=1, comm_tag=7,
                                                 stapled_to=y + 1)}
    W["send_leaf"] = {"out": staple_distributed_send(ph("pay2"), dest_rank=1, comm_tag=9,
                                                      stapled_to=y)}
    W["recv"] = {"out": make_distributed_recv(src_rank=1, comm_tag=8, shape=(4, 4), dtype=f8) + x}
    # call binding: arg only sits in the bindings of the call
    arg = ph("arg")
    W["call"] = {"out": pt.trace_call(lambda u: 2 * u + 1, pt.cos(arg)) + 1}
    arg2 = ph("arg2")
    r2 = pt.trace_call(lambda u, v: {"s": u + v, "d": u - v}, arg2, x)
    W["call_dict"] = {"o1": r2["s"], "o2": r2["d"] * 2}
    # loopy binding
    knl = lp.make_kernel(
        "{[i, j]: 0<=i, j<4}", "out[i, j] = 2*inp[i, j]",
        [lp.GlobalArg("inp", dtype=f8, shape=(4, 4)),
         lp.GlobalArg("out", dtype=f8, shape=(4, 4), is_output=True)],
        name="twice", lang_version=(2018, 2))
    from pytato.loopy import call_loopy
    lin = ph("lin")
    W["loopy"] = {"out": call_loopy(knl, {"inp": lin + 1})["out"] + 1}
    # dictionary entry / named-array container
    d = pt.make_dict_of_named_arrays({"p": x + 1, "q": y * 2})
    W["container"] = {"out": d["p"] + d["q"]}
    # several outputs, one of them used by nothing else
    W["entries"] = {"o1": x + y, "o2": pt.roll(y, 1, 0), "o3": ph("lonely")}
    # UNEQUAL nodes of EQUAL hash (CPython: hash(-1) == hash(-2), and it propagates through
    # otherwise identical ancestors): each is a node of its own for every analysis
    W["hash_twins"] = {"stencil": pt.roll(x, -1, 0) + pt.roll(x, -2, 0) + pt.roll(x, 1, 0),
                       "poly": (y + (-1)) * (y + (-2)),
                       "deep": pt.sin(pt.roll(x, -1, 1) * 2.0) - pt.sin(pt.roll(x, -2, 1) * 2.0)}
    return {k: pt.make_dict_of_named_arrays(v) for k, v in W.items()}


# --------------------------------------------------------------------------
# 11. substitution consistency: change ONE node, compare with an independent
#     reflective substitution

def function_witnesses() -> dict[str, Any]:
    """functions with several return values that share a sub-expression /
    a parameter, every result used by the caller (deterministic)"""
    import pytato as pt
    f8 = np.float64
    x = pt.make_placeholder("x", (4,), f8)
    y = pt.make_placeholder("y", (4,), f8)

    def f2(a: Any, b: Any) -> Any:
        t = pt.sin(a) + b
        return {"u": t + 1.0, "v": t * 2.0}

    def f3(a: Any, b: Any) -> Any:
        t = pt.cos(a) * b
        s = t + a
        return {"u": t + 1.0, "v": s * 2.0, "w": s - t}

    def fp(a: Any) -> Any:                 # only the parameter is shared
        return {"u": a + 1.0, "v": a * 2.0}
    r2 = pt.trace_call(f2, x, y)
    r3 = pt.trace_call(f3, x + 1, y)
    rp = pt.trace_call(fp, x * y)
    W = {
        "call_shared2": {"out": r2["u"] + r2["v"]},
        "call_shared3": {"o1": r3["u"] + r3["v"], "o2": r3["w"]},
        "call_shared_param": {"out": rp["u"] - rp["v"]},
    }
    # NESTED calls: ONE definition g (the same object) is called from inside the body of
    # another function and also directly by the caller, in both operand orders, and through
    # two levels -- a function is entered once however it is reached, and each node of its
    # body is mapped once (the visited-function state is shared by the callee mappers)
    def g(a: Any) -> Any:
        return pt.sin(a) * 3.0 + a
    gdef = pt.trace_call(g, x)._container.function

    def call_g(a: Any) -> Any:
        return gdef(**{"in__pt_0": a})

    def f(a: Any) -> Any:
        return call_g(a + 1.0) * 2.0
    fdef = pt.trace_call(f, x)._container.function

    def call_f(a: Any) -> Any:
        return fdef(**{"in__pt_0": a})

    def h(a: Any) -> Any:
        return call_f(a) - call_g(a)
    W.update({
        "call_nested_first": {"out": call_f(x) + call_g(y)},
        "call_nested_last": {"out": call_g(y) + call_f(x)},
        "call_nested_two_outputs": {"a": call_f(x), "b": call_g(y), "z": call_g(x * y)},
        "call_nested_depth2": {"out": pt.trace_call(h, x) + call_g(y) * call_f(y)},
    })
    return {k: pt.make_dict_of_named_arrays(v) for k, v in W.items()}


def all_witnesses() -> dict[str, Any]:
    W = dict(witness_graphs())
    W.update(function_witnesses())
    return W


def reflect_substitute(root: Any, target: Any, new: Any) -> Any:
    """*root* with *target* (by identity, in every name space) replaced by
    *new*: only the nodes on a path to it are rebuilt (dataclasses.replace /
    the DictOfNamedArrays constructor), each once; everything else is the
    identical object.  No pytato mapper, no pytato ==."""
    import pytato as pt
    from constantdict import constantdict
    memo: dict[int, Any] = {}

    def rv(v: Any) -> Any:
        if is_node(v) or is_function(v):
            return rn(v)
        if isinstance(v, tuple):
            nv = tuple(rv(e) for e in v)
            return v if all(a is b for a, b in zip(nv, v)) else nv
        if isinstance(v, Mapping):
            items = [(k, rv(e)) for k, e in v.items()]
            if all(a[1] is b for a, b in zip(items, v.values())):
                return v
            return dict(items) if type(v) is dict else constantdict(items)
        if _is_pt_dataclass(v):
            ch = {n: rv(o) for n, o in _fields(v)}
            ch = {n: o for n, o in ch.items() if o is not getattr(v, n)}
            return dataclasses.replace(v, **ch) if ch else v
        return v

    def rn(x: Any) -> Any:
        if x is target:
            return new
        if id(x) in memo:
            return memo[id(x)]
        ch = {n: rv(o) for n, o in _fields(x)}
        ch = {n: o for n, o in ch.items() if o is not getattr(x, n)}
        if not ch:
            res = x
        elif isinstance(x, pt.DictOfNamedArrays):
            res = pt.DictOfNamedArrays(ch.get("_data", x._data), tags=ch.get("tags", x.tags))
        elif type(x).__name__ == "NamedCallResult" and "_container" in ch:
            # its axes and tags are those of the returned array (documented:
            # "inherited from the call"): the result of a call is call[name]
            res = ch["_container"][x.name]
        else:
            res = dataclasses.replace(x, **ch)
        memo[id(x)] = res
        return res
    return rn(root)


def _flat(root: Any) -> list[tuple[Any, list[Any]]]:
    """every node and function definition below root (all name spaces), each
    object once, with its children in canonical (path-sorted) order"""
    out: list[tuple[Any, list[Any]]] = []
    seen: set[int] = set()
    st = [root]
    while st:
        o = st.pop()
        if id(o) in seen:
            continue
        seen.add(id(o))
        if is_function(o):
            kids = [v for _, v in sorted(o.returns.items())]
        else:
            kids = [c for _, _, c in sorted(direct_children(o), key=lambda t: t[1])]
        out.append((o, kids))
        st.extend(kids)
    return out


def subst_record(rid: str, inp: Any, expected: Any, got: Any) -> dict:
    """record for spec/PtSubst.tla"""
    orig = {id(o) for o, _ in _flat(inp)}
    oid: dict[int, int] = {}
    labs: dict[Any, int] = {}
    keep: list[Any] = []

    def lab(o: Any) -> int:
        if is_function(o):
            sig: Any = ("fn", o.parameters, o.return_type, o.tags, tuple(sorted(o.returns)))
        else:
            from pytato.array import DataWrapper
            sig = ("DataWrapper", id(o.data), _skel(o.shape, lambda c: 0), o.tags) \
                if isinstance(o, DataWrapper) else (
                    type(o).__name__,
                    tuple((n, _skel(v, lambda c: 0)) for n, v in _fields(o)
                          if n != "non_equality_tags"))
        return labs.setdefault(sig, len(labs) + 1)

    def enc(root: Any) -> dict:
        fl = _flat(root)
        num = {id(o): i + 1 for i, (o, _) in enumerate(fl)}
        for o, _ in fl:
            if id(o) not in oid:
                oid[id(o)] = len(oid) + 1
                keep.append(o)
        return {"n": len(fl), "ch": [[num[id(c)] for c in kids] for _, kids in fl],
                "lab": [lab(o) for o, _ in fl], "oid": [oid[id(o)] for o, _ in fl],
                "orig": [id(o) in orig for o, _ in fl],
                "kind": [type(o).__name__ for o, _ in fl], "root": num[id(root)]}
    return {"id": rid, "a": enc(expected), "b": enc(got)}


def substitution_cases(root: Any) -> list[tuple[Any, Any, str, list[str]]]:
    """(X, X', kind of X, kinds of the edges leading to X) for every array
    node of every name space that accepts a tag"""
    from ptverif.usertags import FooTag
    out = []
    inc: dict[int, set[str]] = {}
    fl = _flat(root)
    for o, _ in fl:
        if is_function(o):
            for v in o.returns.values():
                inc.setdefault(id(v), set()).add("returns")
        else:
            for kd, _, c in direct_children(o):
                inc.setdefault(id(c), set()).add(kd)
    import pytato as pt
    for o, _ in fl:
        if not isinstance(o, pt.Array):
            continue
        try:
            new = o.tagged(FooTag())
            assert new is not o and isinstance(new, type(o))
        except Exception:       # noqa: BLE001   (call results, send holders: no tags of their own)
            continue
        out.append((o, new, type(o).__name__, sorted(inc.get(id(o), {"root"}))))
    return out


def rewriters(x: Any, new: Any) -> dict[str, Callable[[Any], Any]]:
    """ways of asking pytato to change X only"""
    import pytato as pt
    from pytato.transform import CopyMapper

    def handler_subclass(root: Any) -> Any:
        name = None
        for klass in type(x).__mro__:
            name = klass.__dict__.get("_mapper_method") or getattr(klass, "_mapper_method", None)
            if name and hasattr(CopyMapper, name):
                break
        if not name or not hasattr(CopyMapper, name):
            raise NotImplementedError("no CopyMapper handler")
        base = getattr(CopyMapper, name)

        def handler(self: Any, expr: Any) -> Any:
            res = base(self, expr)
            return new if expr is x else res
        Sub = type("OneNodeRewriter", (CopyMapper,), {name: handler})
        return Sub()(root)
    return {
        "map_and_copy": lambda root: pt.transform.map_and_copy(
            root, lambda n: new if n is x else n),
        "CopyMapper-subclass": handler_subclass,
    }


# --------------------------------------------------------------------------
# 12. C20: every node kind that can carry (or delegate) ImplStored does so

def stored_witnesses() -> dict[str, Any]:
    """For every array kind that can carry the ImplStored tag -- or delegates
    its ``tags`` to another node (send holders -> passthrough data, named
    arrays -> dictionary entry, call results -> returned array) -- one graph
    in which such a stored node is INTERIOR (used by x + 1, not an output) and
    one in which it is the OUTPUT.  Deterministic."""
    import pytato as pt
    from pytato.distributed.nodes import make_distributed_recv, staple_distributed_send
    from pytato.tags import ImplStored
    f8 = np.float64
    S = ImplStored()

    def ph(name: str, shape: tuple = (4, 4), dtype: Any = f8) -> Any:
        return pt.make_placeholder(name, shape, dtype)
    x, y = ph("x"), ph("y")
    idx = ph("idx", (4,), np.int64)
    A = pt.make_csr_matrix((4, 4), ph("ev", (8,)), ph("ec", (8,), np.int64),
                           ph("rs", (5,), np.int64))
    d = pt.make_dict_of_named_arrays({"p": (x + 1).tagged(S), "q": y * 2})
    call = pt.trace_call(lambda u: (2 * u).tagged(S), pt.cos(x))
    nodes: dict[str, Any] = {
        "index_lambda": (x + y).tagged(S),
        "basic_index": x[1:3, ::2].tagged(S),
        "adv_index": x[idx].tagged(S),
        "reshape": pt.reshape(x, (2, 8)).tagged(S),
        "einsum": pt.einsum("ij,jk->ik", x, y).tagged(S),
        "roll": pt.roll(x, 1, 0).tagged(S),
        "transpose": x.T.tagged(S),
        "stack": pt.stack([x, y]).tagged(S),
        "concatenate": pt.concatenate([x, y]).tagged(S),
        "csr_matmul": (A @ x).tagged(S),
        "recv": make_distributed_recv(src_rank=1, comm_tag=3, shape=(4, 4), dtype=f8).tagged(S),
        # tags delegated / inherited
        "send_holder": staple_distributed_send(ph("pay") * 2, dest_rank=1, comm_tag=7,
                                               stapled_to=(y + 1).tagged(S)),
        "send_holder_leafdata": staple_distributed_send(ph("pay2"), dest_rank=1, comm_tag=8,
                                                        stapled_to=pt.sin(y).tagged(S)),
        "named_array": d["p"],
        "call_result": call,
    }
    W: dict[str, Any] = {}
    for k, v in nodes.items():
        W[k + "/interior"] = pt.make_dict_of_named_arrays({"out": v + 1})
        W[k + "/output"] = pt.make_dict_of_named_arrays({"out": v})
        W[k + "/output_and_other"] = pt.make_dict_of_named_arrays({"o1": v, "o2": x - y})
    return W
