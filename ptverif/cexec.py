"""Executing pytato-generated loopy kernels in this sandbox (no OpenCL
platform): a harness-side LoopyTarget whose loopy target is an
ExecutableCTarget (gcc).  Nothing in pytato changes.

Shims (all on the harness side, DESIGN section 10):
  * compiler flags -std=c99 -O1 -ffp-contract=off -fPIC, and
    -include limits.h -include math.h (loopy emits INT_MIN / HUGE_VAL etc.
    without the headers);
  * a symbol mangler for HUGE_VAL / INFINITY / LONG_MAX / LONG_MIN ... (neutral
    elements of max/min reductions that the plain C target cannot type);
  * global temporaries are turned into output arguments before execution
    (loopy's C executor does not allocate them);
  * zero-size arguments go through a patched argument marshaller.
"""
from __future__ import annotations

import os
from dataclasses import dataclass
from typing import Any

import numpy as np


os.environ.setdefault("LOOPY_NO_CACHE", "1")     # no stale on-disk caches

import loopy as lp                                              # noqa: E402
from loopy.target.c import CWithGNULibcASTBuilder, ExecutableCTarget  # noqa: E402
from loopy.target.c.c_execution import CCompiler               # noqa: E402
from loopy.types import NumpyType                              # noqa: E402

_SYMBOLS = {
    "HUGE_VAL": np.float64, "INFINITY": np.float32, "NAN": np.float64,
    "LONG_MAX": np.int64, "LONG_MIN": np.int64, "INT_MAX": np.int32,
    "INT_MIN": np.int32, "SHRT_MAX": np.int16, "SHRT_MIN": np.int16,
    "SCHAR_MAX": np.int8, "SCHAR_MIN": np.int8, "ULONG_MAX": np.uint64,
    "UINT_MAX": np.uint32, "USHRT_MAX": np.uint16, "UCHAR_MAX": np.uint8,
    "FLT_MAX": np.float32, "DBL_MAX": np.float64,
}


def _mangle(kernel: Any, name: str) -> Any:
    if name in _SYMBOLS:
        return NumpyType(np.dtype(_SYMBOLS[name])), name
    return None


class PtVerifASTBuilder(CWithGNULibcASTBuilder):
    def symbol_manglers(self) -> list:
        return [*super().symbol_manglers(), _mangle]


class PtVerifCCompiler(CCompiler):
    """loopy 2025.2 emits the preamble of its integer isnan helper as
    `static inline static int isnani32(int32_t x)` (duplicate storage class,
    and ahead of <stdint.h>): a loopy defect, repaired in the source text here."""

    def build(self, name: str, code: str, *args: Any, **kwargs: Any) -> Any:
        code = code.replace("static inline static int", "static inline int")
        # a translation unit with callee kernels (LoopyCall) is built once per
        # device program from the SAME source; codepy's cache is keyed by the
        # source checksum and then looks for <name>.so -> make the text unique
        code += f"\n/* built as {name} */\n"
        return super().build(name, code, *args, **kwargs)


class PtVerifCTarget(ExecutableCTarget):
    def __init__(self) -> None:
        super().__init__(compiler=PtVerifCCompiler(
            cflags=["-std=c99", "-O1", "-ffp-contract=off", "-fPIC",
                    "-include", "stdint.h", "-include", "stdbool.h",
                    "-include", "limits.h", "-include", "math.h",
                    "-include", "float.h"]))

    def get_device_ast_builder(self) -> Any:
        return PtVerifASTBuilder(self)

    def get_kernel_executor(self, t_unit: Any, *args: Any, entrypoint: Any,
                            **kwargs: Any) -> Any:
        return _executor_class()(t_unit, entrypoint=entrypoint, compiler=self.compiler)


def _executor_class() -> Any:
    """loopy's CExecutor loads one ctypes function per *device program* and its
    invoker calls every one of them with the entrypoint's arguments; callee
    kernels (LoopyCall) are `static` functions of the same source, so that
    cannot work.  Only the entrypoint's device program is loaded here."""
    from loopy.target.c.c_execution import CExecutor, CompiledCKernel, _KernelInfo
    from pytools import memoize_method

    class PtVerifCExecutor(CExecutor):
        @memoize_method
        def translation_unit_info(self, arg_to_dtype: Any = None) -> Any:
            t_unit = self.get_typed_and_scheduled_translation_unit(arg_to_dtype)
            from loopy.codegen import generate_code_v2
            from loopy.schedule.tools import get_kernel_arg_info
            codegen_result = generate_code_v2(t_unit)
            all_code = "\n".join([codegen_result.device_code(), "",
                                  codegen_result.host_code()])
            kai = get_kernel_arg_info(t_unit[self.entrypoint])
            c_kernels = [CompiledCKernel(t_unit[self.entrypoint], dp, kai.passed_names,
                                         all_code, self.compiler)
                         for dp in codegen_result.device_programs
                         if dp.name == self.entrypoint]
            if len(c_kernels) != 1:
                raise RuntimeError(f"no unique device program for {self.entrypoint}")
            return _KernelInfo(t_unit=t_unit, c_kernels=c_kernels,
                               invoker=self.get_invoker(t_unit, self.entrypoint,
                                                        codegen_result))
    return PtVerifCExecutor


def _make_target() -> Any:
    return PtVerifCTarget()


def _lift_global_temporaries(t_unit: Any) -> Any:
    """Global temporaries -> output GlobalArgs (the C executor does not
    allocate global temporaries)."""
    knl = t_unit.default_entrypoint
    new_args = list(knl.args)
    new_temps = dict(knl.temporary_variables)
    lifted = []
    for name, tv in sorted(knl.temporary_variables.items()):
        if tv.address_space == lp.AddressSpace.GLOBAL:
            del new_temps[name]
            new_args.append(lp.GlobalArg(name, dtype=tv.dtype, shape=tv.shape,
                                         dim_tags=tv.dim_tags, is_output=True,
                                         is_input=False))
            lifted.append(name)
    # loopy drops array arguments that no instruction touches from the C
    # signature but its invoker still passes them (-> segfault): prune them here.
    # A pruned OUTPUT must be zero-size (nothing to write); otherwise the
    # generated kernel never writes one of its outputs, which is reported.
    # (reads inside substitution rules count: expand them for this analysis)
    expanded = lp.expand_subst(knl) if knl.substitutions else knl
    used = expanded.get_read_variables() | expanded.get_written_variables()
    pruned = {}
    kept = []
    for a in new_args:
        if isinstance(a, lp.ArrayArg) and a.name not in used:
            pruned[a.name] = a
        else:
            kept.append(a)
    knl = knl.copy(args=kept, temporary_variables=new_temps)
    return t_unit.with_kernel(knl), lifted, pruned


class UnwrittenOutput(Exception):
    pass


@dataclass(init=True, repr=False, eq=False)
class BoundCProgram:
    program: Any
    bound_arguments: Any
    target: Any

    def __post_init__(self) -> None:
        self._exec_unit = None
        self._executor = None
        self.lifted: list[str] = []
        self.pruned: dict[str, Any] = {}

    @property
    def kernel(self) -> Any:
        return self.program.default_entrypoint

    def __call__(self, **kwargs: Any) -> dict[str, np.ndarray]:
        """Runs the kernel; returns name -> ndarray for every output
        (including lifted global temporaries)."""
        if set(kwargs) & set(self.bound_arguments):
            raise ValueError("got arguments that were previously bound")
        if self._exec_unit is None:
            self._exec_unit, self.lifted, self.pruned = _lift_global_temporaries(self.program)
        knl = self._exec_unit.default_entrypoint
        args = dict(self.bound_arguments)
        args.update(kwargs)
        args = {k: v for k, v in args.items() if k in knl.arg_dict}
        call_args: dict[str, Any] = {}
        for a in knl.args:
            if a.name in args:
                v = args[a.name]
                if isinstance(v, np.ndarray):
                    v = np.ascontiguousarray(v) if v.ndim else np.asarray(v)
                call_args[a.name] = v
        # zero-size outputs are pre-allocated here: loopy's allocation code
        # asserts positive strides, which a zero-length axis violates
        for a in knl.args:
            if a.name not in call_args and getattr(a, "is_output", False) \
                    and isinstance(getattr(a, "shape", None), tuple):
                try:
                    conc = tuple(int(d) for d in a.shape)
                except TypeError:
                    continue
                if 0 in conc:
                    call_args[a.name] = np.empty(conc, a.dtype.numpy_dtype)
        _patch_marshaller()
        if self._executor is None:
            self._executor = self._exec_unit.executor()
        _evt, out = self._executor(**call_args)
        res = dict(out) if isinstance(out, dict) else dict(
            zip([a.name for a in knl.args if getattr(a, "is_output", False)], out))
        for name, a in self.pruned.items():
            if getattr(a, "is_output", False):
                shape = tuple(int(d) for d in a.shape)
                if 0 not in shape:
                    raise UnwrittenOutput(f"output {name} of shape {shape} is never written")
                res[name] = np.empty(shape, a.dtype.numpy_dtype)
        return {k: np.asarray(v) for k, v in res.items()}


_patched = [False]


def _patch_marshaller() -> None:
    """loopy's C invoker builds `arg_t(0.0)` for a zero-size array argument,
    which is a TypeError for a ctypes pointer type.  Pass a null pointer
    instead (the kernel never dereferences it: there are no iterations)."""
    if _patched[0]:
        return
    from loopy.target.c.c_execution import CompiledCKernel

    def call(self: Any, *args: Any) -> None:
        args_ = []
        for arg, arg_t in zip(args, self._fn.argtypes):
            if hasattr(arg, "ctypes"):
                arg_ = arg_t() if arg.size == 0 else arg.ctypes.data_as(arg_t)
            else:
                arg_ = arg_t(arg)
            args_.append(arg_)
        self._fn(*args_)
    CompiledCKernel.__call__ = call
    _patched[0] = True


def make_target() -> Any:
    from pytato.target.loopy import LoopyTarget

    class CTarget(LoopyTarget):
        def get_loopy_target(self) -> Any:
            return _make_target()

        def bind_program(self, program: Any, bound_arguments: Any) -> Any:
            return BoundCProgram(program=program, bound_arguments=bound_arguments,
                                 target=self)
    return CTarget()


def quasi_affine(expr: Any) -> bool:
    """What pytato.scalar_expr.is_quasi_affine decides where loopy's affine
    conversion works: sums, products with at most one non-constant factor,
    floor-division / remainder by constants, over variables and integers."""
    import pymbolic.primitives as p

    def const(e: Any) -> bool:
        return isinstance(e, (int, np.integer))

    def ok(e: Any) -> bool:
        if const(e) or isinstance(e, p.Variable):
            return True
        if isinstance(e, p.Sum):
            return all(ok(c) for c in e.children)
        if isinstance(e, p.Product):
            non = [c for c in e.children if not const(c)]
            return len(non) <= 1 and all(ok(c) for c in non)
        if isinstance(e, (p.FloorDiv, p.Remainder)):
            return ok(e.numerator) and const(e.denominator) and int(e.denominator) > 0
        return False
    return ok(expr)


def generate(outputs: Any, qa_shim: bool = False, **kw: Any) -> BoundCProgram:
    """deduplicate + generate_loopy with the C target.

    qa_shim: in this sandbox loopy's affine conversion fails on EVERY
    expression (loopy / islpy version mismatch: TypeError inside
    pwaff_from_expr, reported as 'not affine'), so pytato's is_quasi_affine is
    constantly False and every reduction is force-stored with bound
    temporaries -- the path with INLINED reductions, which is what users with
    a working loopy get, is never taken.  With qa_shim the decision is made by
    quasi_affine() above for the duration of this call, so that both paths of
    CodeGenMapper.map_index_lambda are exercised."""
    import pytato as pt
    if not isinstance(outputs, pt.DictOfNamedArrays):
        outputs = pt.make_dict_of_named_arrays(dict(outputs))
    outputs = pt.transform.deduplicate(outputs)
    if not qa_shim:
        return pt.generate_loopy(outputs, target=make_target(), **kw)
    import pytato.target.loopy.codegen as cg
    orig = cg.is_quasi_affine
    cg.is_quasi_affine = quasi_affine
    try:
        return pt.generate_loopy(outputs, target=make_target(), **kw)
    finally:
        cg.is_quasi_affine = orig
