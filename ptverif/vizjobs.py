"""X02: one JOB = one graph / partition / ladder built from plain data, pushed
through the real renderers, with the records the judges need.  Jobs are plain
data so that they can be run in worker processes and -- for the clause "the
text does not depend on the hash seed" -- in fresh interpreters with another
PYTHONHASHSEED (``python -m ptverif.vizjobs jobs.json out.json``).
"""
from __future__ import annotations

import hashlib
import json
import re
import sys
from typing import Any, Callable

import numpy as np

from . import viz, vizdot, vizrepr
from .viz import Unsupported

_ADDR = re.compile(r"0x[0-9a-fA-F]+")
_TOOLTIP = re.compile(r'tooltip="(?:[^"\\]|\\.)*"', re.S)


def sha(s: str) -> str:
    return hashlib.sha256(s.encode()).hexdigest()[:16]


def norm_text(text: str) -> str:
    """addresses and tooltips (source locations of the harness) removed"""
    return _ADDR.sub("0xADDR", _TOOLTIP.sub('tooltip=""', text))


def canon_rendering(R: dict) -> str:
    """a canonical digest of an abstract rendering: the sorted bag of
    structural signatures (label, cluster, bag of (edge label, style,
    signature of the source)) -- equal iff the renderings are isomorphic as
    labelled pictures (up to look-alike twins)"""
    if R["error"]:
        return "error:" + R["error"]
    sig: list[str] = []
    for nd in R["nodes"]:
        if any(e["to"] > len(sig) for e in nd["kids"]):
            return "cyclic"
        kids = sorted((e["lab"], e["style"], sig[e["to"] - 1]) for e in nd["kids"])
        fields = sorted((k, _ADDR.sub("0xADDR", v)) for k, v in nd["fields"].items()
                        if k != "addr")
        sig.append(sha(json.dumps([nd["cl"], nd["title"], fields, nd["plain"], kids])))
    return sha(json.dumps(sorted(sig)))


# --------------------------------------------------------------------------
# graphs built through the API

def _ph(name: str, shape: tuple = (4, 4), dtype: Any = np.float64, **kw: Any) -> Any:
    import pytato as pt
    return pt.make_placeholder(name, shape, dtype, **kw)


def api_graphs() -> dict[str, Callable[[], dict[str, Any]]]:
    """name -> builder of an output dictionary.  Between them: every node
    kind, functions (named, unnamed, nested, several call sites, several
    results), loopy calls, distributed nodes, size parameters in shapes, tags
    and names that need escaping."""
    import loopy as lp
    import pytato as pt
    from pytato.loopy import call_loopy

    from .viztags import NASTY, NastyTag, OtherTag
    G: dict[str, Callable[[], dict[str, Any]]] = {}

    def reg(f: Callable[[], dict[str, Any]]) -> Callable[[], dict[str, Any]]:
        G[f.__name__] = f
        return f

    @reg
    def every_kind() -> dict:
        x, y = _ph("x"), _ph("y")
        idx = _ph("idx", (4,), np.int64)
        z = _ph("z", (4, 4, 4))
        dw = pt.make_data_wrapper(np.arange(16.).reshape(4, 4))
        ev, ec, rs = _ph("ev", (8,)), _ph("ec", (8,), np.int64), _ph("rs", (5,), np.int64)
        A = pt.make_csr_matrix((4, 4), ev, ec, rs)
        t = pt.sin(x) + y
        return {
            "ew": t,
            "einsum": pt.einsum("ij,jk->ik", t, dw),
            "stack": pt.stack([x, y, t], axis=1),
            "concat": pt.concatenate([x, t], axis=0),
            "roll": pt.roll(y, 2, 1),
            "perm": pt.transpose(z, (2, 0, 1)),
            "reshape": pt.reshape(x, (2, 8), order="F"),
            "basic": x[1:3, ::-1],
            "basic_int": z[1, :, 2],
            "adv": x[idx, idx],
            "adv_nc": z[idx, :, idx],
            "csr": A @ x,
            "red": pt.sum(t, axis=1),
            "scalar": pt.sum(x),
            "zeros": pt.zeros((3,)) + 1,
            "where": pt.where(pt.greater(x, y), x, y),
            "ph_out": y,
        }

    @reg
    def nasty_tags() -> dict:
        x, y = _ph("x"), _ph("y")
        outs = {}
        base = [x + y, pt.roll(x, 1, 0), x.T, pt.stack([x, y]), x[1:3], pt.einsum("ij->ji", y),
                pt.reshape(x, (16,)), pt.concatenate([x, y])]
        for k, s in enumerate(NASTY):
            a = base[k % len(base)].tagged(NastyTag(s))
            if k % 3 == 0:
                a = a.tagged(OtherTag(s, k))
            outs[f"o{k}"] = a
        outs["ph"] = _ph("p", (2,)).tagged(NastyTag(NASTY[1])) + 1
        outs["dw"] = pt.make_data_wrapper(np.ones(3), tags=frozenset({NastyTag(NASTY[3])})) * 2
        outs["axis"] = (x * 2).with_tagged_axis(0, NastyTag(NASTY[2]))
        outs["two"] = (x - y).tagged(NastyTag("b")).tagged(NastyTag("a")).tagged(OtherTag("c", 1))
        return outs

    @reg
    def symbolic() -> dict:
        n, m = pt.make_size_param("n"), pt.make_size_param("m")
        a, b = _ph("a", (n, 4)), _ph("b", (n, 4))
        c = _ph("c", (m,))
        dw = pt.make_data_wrapper(np.ones((3, 4)), shape=(m, 4))
        return {"sum": a + 2 * b, "outer": pt.einsum("i,jk->ijk", c, a),
                "dw": dw + 1, "n_itself": n + 1,
                "slice": a[:, 1:], "bigger": _ph("d", (n + m, 2 * n)) * 2}

    @reg
    def functions() -> dict:
        x, y = _ph("x", (4,)), _ph("y", (4,))

        def f(a: Any, b: Any) -> Any:
            return {"s": pt.sin(a) + b, "d": a - b}

        def g(a: Any) -> Any:
            return 2 * a + 1

        def h(a: Any) -> Any:                       # calls g: a nested function
            return pt.trace_call(g, a + 1, identifier="g") * a

        r1 = pt.trace_call(f, x, y, identifier="f")
        r2 = pt.trace_call(f, y, x + 1, identifier="f")        # second call site of f
        return {"a": r1["s"] + r1["d"], "b": r2["s"], "c": pt.trace_call(g, x, identifier="g"),
                "d": pt.trace_call(h, y, identifier="h"),
                "e": pt.trace_call(g, y, identifier=None) + 1,     # unnamed
                "e2": pt.trace_call(lambda a: a * a, x, identifier=None)}

    @reg
    def function_names() -> dict:
        x = _ph("x", (4,))
        outs = {}
        for k, ident in enumerate(["plain_name", "with space", "tuple_id"]):
            outs[f"o{k}"] = pt.trace_call(lambda a, k=k: a + k, x, identifier=ident) + 1
        return outs

    @reg
    def loopy() -> dict:
        knl = lp.make_kernel(
            "{[i]: 0<=i<4}", "out1[i] = 2*inp[i] + s\nout2[i] = inp[i]*inp[i]",
            [lp.GlobalArg("inp", dtype=np.float64, shape=(4,)),
             lp.ValueArg("s", dtype=np.float64),
             lp.GlobalArg("out1", dtype=np.float64, shape=(4,), is_output=True),
             lp.GlobalArg("out2", dtype=np.float64, shape=(4,), is_output=True)],
            name="two_results", lang_version=(2018, 2))
        x = _ph("x", (4,))
        c = call_loopy(knl, {"inp": x + 1, "s": 3.0})
        c2 = call_loopy(knl, {"inp": c["out1"], "s": pt.sum(x)})
        return {"a": c["out1"] + c["out2"], "b": c2["out2"]}

    @reg
    def distributed() -> dict:
        x, y = _ph("x"), _ph("y")
        r = pt.make_distributed_recv(src_rank=1, comm_tag="t<1>", shape=(4, 4), dtype=np.float64)
        n = pt.make_size_param("n")
        r2 = pt.make_distributed_recv(src_rank=2, comm_tag=7, shape=(n,), dtype=np.int64)
        h = pt.staple_distributed_send(x * 2, dest_rank=1, comm_tag="a&b", stapled_to=y + r)
        h2 = pt.staple_distributed_send(h, dest_rank=3, comm_tag=9, stapled_to=h)
        return {"out": h2 + 1, "r2": r2 * 2, "leaf": pt.staple_distributed_send(
            y, dest_rank=2, comm_tag=11, stapled_to=x)}

    @reg
    def containers() -> dict:
        x, y = _ph("x"), _ph("y")
        d = pt.make_dict_of_named_arrays({"p": x + 1, "q": y * 2, "unused": x - y})
        return {"out": d["p"] + d["q"], "entry": d["p"]}

    @reg
    def twins() -> dict:
        # data wrappers are equal only to themselves: two wrappers with the same
        # label are two nodes; and two nodes that differ only in what no label shows
        d1 = pt.make_data_wrapper(np.ones(3))
        d2 = pt.make_data_wrapper(np.ones(3))
        x = _ph("x", (3,))
        a = (x + 1).with_tagged_axis(0, NastyTag("p"))
        b = (x + 1).with_tagged_axis(0, NastyTag("q"))
        return {"o1": d1 + d2, "o2": d1 * d1, "o3": a * b, "o4": a * a}

    @reg
    def sharing() -> dict:
        x = _ph("x")
        t = pt.sin(x)
        u = t + t
        v = u * t
        return {"a": v, "b": u, "c": t, "d": v + u, "e": x}

    @reg
    def duplicates() -> dict:
        # structurally equal nodes built twice (not deduplicated)
        x = _ph("x")
        return {"a": (x + 1) * (x + 1), "b": pt.sin(x + 1)}

    @reg
    def single_node() -> dict:
        return {"only": _ph("lonely", ())}

    @reg
    def empty() -> dict:
        return {}

    return G


def nasty_name_cases() -> dict[str, Callable[[], dict[str, Any]]]:
    """names that are legal for pytato (Python identifiers; any hashable as a
    function identifier) and significant for DOT"""
    import pytato as pt

    from .viztags import IDENT_NAMES
    C: dict[str, Callable[[], dict[str, Any]]] = {}
    for nm in IDENT_NAMES:
        C[f"output/{nm}"] = lambda nm=nm: {nm: _ph("x") + 1}
        C[f"placeholder/{nm}"] = lambda nm=nm: {"out": _ph(nm) + 1}
    C["function/lambda"] = lambda: {"out": pt.trace_call(lambda a: a + 1, _ph("x")) + 1}
    for ident in ["node", "my-func", "f(x)", 'q"q', "a<b>", 42, ("t", 1)]:
        C[f"function/{ident!r}"] = lambda ident=ident: {
            "out": pt.trace_call(lambda a: a + 1, _ph("x"), identifier=ident) + 1}
    return C


def hand_partitions() -> dict[str, Callable[[], Any]]:
    """DistributedGraphPartition objects put together by hand (the data class
    is public): part ids of several types, a function called in two parts, a
    user input read by two parts, a name received in one part and read in a
    later one"""
    import pytato as pt
    from pytato.distributed.nodes import DistributedSend
    from pytato.distributed.partition import DistributedGraphPart, DistributedGraphPartition
    H: dict[str, Callable[[], Any]] = {}

    def part(pid: Any, outs: list[str], user: list[str] = (), pin: list[str] = (),   # type: ignore[assignment]
             needed: list = (), recv: dict | None = None, send: dict | None = None) -> Any:   # type: ignore[assignment]
        return DistributedGraphPart(pid=pid, needed_pids=frozenset(needed),
                                    user_input_names=frozenset(user),
                                    partition_input_names=frozenset(pin),
                                    output_names=frozenset(outs),
                                    name_to_recv_node=recv or {}, name_to_send_nodes=send or {})

    def two_parts(pids: tuple = (0, 1)) -> Any:
        x = _ph("x")
        t = pt.sin(x) + 1
        tp = _ph("tmp")
        out = tp * x + t                 # part 2 has its own instance of t
        return DistributedGraphPartition(
            parts={pids[0]: part(pids[0], ["tmp"], ["x"]),
                   pids[1]: part(pids[1], ["out"], ["x"], ["tmp"], [pids[0]])},
            name_to_output={"tmp": t, "out": out}, overall_output_names=("out",))
    H["two_parts"] = two_parts
    H["pid_strings"] = lambda: two_parts(("first", "second_2"))

    def overall_in_two_parts() -> Any:
        x = _ph("x")
        o1 = pt.sin(x) + 1
        o2 = o1 * 2                       # part 1 recomputes o1 instead of reading it
        return DistributedGraphPartition(
            parts={0: part(0, ["o1"], ["x"]), 1: part(1, ["o2"], ["x"], [], [0])},
            name_to_output={"o1": o1, "o2": o2}, overall_output_names=("o1", "o2"))
    H["overall_in_two_parts"] = overall_in_two_parts

    def function_in_two_parts() -> Any:
        x = _ph("x", (4,))

        def f(a: Any) -> Any:
            return 2 * a + 1
        t = pt.trace_call(f, x, identifier="f")
        tp = _ph("tmp", (4,))
        out = pt.trace_call(f, tp + 1, identifier="f") + tp
        return DistributedGraphPartition(
            parts={0: part(0, ["tmp"], ["x"]), 1: part(1, ["out"], [], ["tmp"], [0])},
            name_to_output={"tmp": t, "out": out}, overall_output_names=("out",))
    H["function_in_two_parts"] = function_in_two_parts

    def recv_read_later() -> Any:
        x = _ph("x", (4,))
        rv = pt.make_distributed_recv(src_rank=1, comm_tag=5, shape=(4,), dtype=np.float64)
        rp_ = _ph("got", (4,))
        sent = x + 1
        out = rp_ * 2 + _ph("s", (4,))
        return DistributedGraphPartition(
            parts={0: part(0, ["s"], ["x"], recv={"got": rv},
                           send={"s": [DistributedSend(sent, dest_rank=1, comm_tag=6)]}),
                   1: part(1, ["out"], [], ["got", "s"], [0])},
            name_to_output={"s": sent, "out": out}, overall_output_names=("out",))
    H["recv_read_later"] = recv_read_later

    def recv_same_part() -> Any:
        x = _ph("x", (4,))
        rv = pt.make_distributed_recv(src_rank=1, comm_tag="t'1'", shape=(4,), dtype=np.float64)
        rp_ = _ph("got", (4,))
        sent = x + 1
        out = rp_ * 2 + x
        return DistributedGraphPartition(
            parts={0: part(0, ["s"], ["x"],
                           send={"s": [DistributedSend(sent, dest_rank=1, comm_tag=6),
                                       DistributedSend(sent, dest_rank=2, comm_tag=7)]}),
                   1: part(1, ["out"], ["x"], [], [0], recv={"got": rv})},
            name_to_output={"s": sent, "out": out}, overall_output_names=("out",))
    H["recv_same_part"] = recv_same_part

    def read_by_two_parts() -> Any:
        # one part output read by two later parts (one placeholder, one cross-part
        # edge), a user input read by all three, an entry of name_to_output that no
        # part computes (dead: not drawn)
        x = _ph("x", (4,))
        tmp = pt.sin(x) + 1
        tp = _ph("tmp", (4,))
        o1 = tp * 2 + x
        o2 = tp - x
        dead = pt.cos(x) * 3
        return DistributedGraphPartition(
            parts={0: part(0, ["tmp"], ["x"]),
                   1: part(1, ["o1"], ["x"], ["tmp"], [0]),
                   2: part(2, ["o2"], ["x"], ["tmp"], [0])},
            name_to_output={"tmp": tmp, "o1": o1, "o2": o2, "dead": dead},
            overall_output_names=("o1", "o2"))
    H["read_by_two_parts"] = read_by_two_parts
    return H


# --------------------------------------------------------------------------
# one DOT case

def _snapshot(S: dict) -> str:
    return json.dumps({k: v for k, v in S.items() if not k.startswith("_")}, sort_keys=True)


def strip(S: dict) -> dict:
    return {k: v for k, v in S.items() if not k.startswith("_")}


def dot_case(cid: str, obj: Any, family: str, *, partition: bool = False,
             gv: bool = True, permute: bool = True) -> dict:
    """render *obj* (an output dictionary or a partition) and collect what
    the judges need"""
    import pytato as pt
    from pytato.visualization import get_dot_graph, get_dot_graph_from_partition
    res: dict[str, Any] = {"id": cid, "family": family, "records": [], "problems": [],
                           "status": "ok", "hashes": {}, "stats": {}}

    def source() -> dict:
        return viz.source_of_partition(obj) if partition else viz.source_of_outputs(obj)

    def render(o: Any) -> str:
        if partition:
            return get_dot_graph_from_partition(o)
        return get_dot_graph(pt.make_dict_of_named_arrays(o))
    try:
        S = source()
    except Unsupported as ex:
        res["status"] = "unsupported:" + str(ex)[:80]
        return res
    try:
        viz.picture(S, ())
    except Unsupported as ex:
        res["status"] = "unsupported:" + str(ex)[:80]
        return res
    snap = _snapshot(S)
    try:
        text = render(obj)
    except Exception as ex:      # noqa: BLE001
        what = f"{type(ex).__name__}: {ex}"[:300]
        if isinstance(ex, ValueError) and "cache collision" in str(ex) and S.get("_dups"):
            res["status"] = "refused:duplicates"          # documented precondition
            return res
        res["problems"].append({"clause": "raised", "what": what,
                                "exc": type(ex).__name__})
        res["status"] = "raised"
        return res
    # (b) pure function
    try:
        text2 = render(obj)
    except Exception as ex:      # noqa: BLE001
        text2 = f"<raised {type(ex).__name__}>"
    if text2 != text:
        res["problems"].append({"clause": "not_repeatable",
                                "what": "two calls on the same object gave different text"})
    if _snapshot(source()) != snap:
        res["problems"].append({"clause": "input_mutated",
                                "what": "the reflective export of the input changed"})
    R = viz.rendering(text, S["_addr"])
    res["records"].append({"id": cid, "kind": "dot", "src": strip(S), "dot": R})
    res["hashes"][cid] = {"text": sha(norm_text(text)), "picture": canon_rendering(R)}
    res["stats"] = {"nodes": len(S["nodes"]), "rendered": len(R["nodes"]),
                    "multi_cluster_nodes": R.get("multi_cluster_nodes", 0),
                    "cluster_names_reused": len(R.get("cluster_basenames_reused", [])),
                    "chars": len(text)}
    # order of the outputs does not matter
    if permute and not partition and len(obj) >= 2:
        rev = dict(reversed(list(obj.items())))
        try:
            R3 = viz.rendering(render(rev), S["_addr"])
            res["records"].append({"id": cid + "#perm", "kind": "dot", "src": strip(S),
                                   "dot": R3})
        except Exception as ex:      # noqa: BLE001
            res["problems"].append({"clause": "raised", "what": f"outputs reversed: "
                                    f"{type(ex).__name__}: {ex}"[:300],
                                    "exc": type(ex).__name__})
    if permute and partition and len(obj.parts) >= 2:
        import dataclasses
        rev = dataclasses.replace(obj, parts=dict(reversed(list(obj.parts.items()))))
        try:
            R3 = viz.rendering(get_dot_graph_from_partition(rev), S["_addr"])
            res["records"].append({"id": cid + "#perm", "kind": "dot", "src": strip(S),
                                   "dot": R3})
        except AssertionError:
            pass          # (the order of the parts decides whether finding X02-F2 strikes)
        except Exception as ex:      # noqa: BLE001
            res["problems"].append({"clause": "raised", "what": f"parts reversed: "
                                    f"{type(ex).__name__}: {ex}"[:300],
                                    "exc": type(ex).__name__})
    # graphviz' own reading, where there is a graphviz
    if gv:
        view = vizdot.graphviz_view(text)
        if view is not None:
            res["stats"]["graphviz"] = 1
            # (graphviz refuses a text whose HTML-like label is not well-formed XML)
            mine_ok = R["error"] == ""
            if view["ok"] and "badly delimited" in view.get("stderr", ""):
                view = dict(view, ok=False)
            if view["ok"] != mine_ok:
                res["machinery"] = (f"{cid}: graphviz "
                                    f"{'accepts' if view['ok'] else 'rejects'} the text, the "
                                    f"harness' parser does not agree: {view.get('stderr')} / "
                                    f"{R['what']}")
            elif view["ok"]:
                g = vizdot.parse(text)
                hm, _ = vizdot.homes(g)
                mine = {k: sorted({hm[k][:i][-1] for i in range(1, len(hm[k]) + 1)
                                   if hm[k][:i][-1].startswith("cluster")})
                        for k in g.nodes}
                theirs = {k: sorted(set(v)) for k, v in view["nodes"].items()}
                if mine != theirs or sorted((e.src, e.dst) for e in g.edges) != view["edges"]:
                    res["machinery"] = f"{cid}: graphviz reads other nodes / edges / clusters"
                if "Warning" in view.get("stderr", ""):
                    res["stats"]["graphviz_warnings"] = view["stderr"][:120]
    return res


# --------------------------------------------------------------------------
# repr cases

def repr_case(cid: str, root: Any, family: str, depths: tuple = (3,)) -> dict:
    from pytato.stringifier import Reprifier
    res: dict[str, Any] = {"id": cid, "family": family, "records": [], "problems": [],
                           "status": "ok", "hashes": {}, "stats": {}}
    try:
        S = vizrepr.repr_source(root)
    except Unsupported as ex:
        res["status"] = "unsupported:" + str(ex)[:80]
        return res
    is_dict = type(root).__name__ == "DictOfNamedArrays"
    try:
        t1, t2 = repr(root), repr(root)
    except Exception as ex:      # noqa: BLE001
        res["problems"].append({"clause": "raised", "what": f"repr: {type(ex).__name__}: {ex}"[:300],
                                "exc": type(ex).__name__})
        res["status"] = "raised"
        return res
    if t1 != t2:
        res["problems"].append({"clause": "repr_not_repeatable",
                                "what": "repr(x) != repr(x)"})
    if str(root) != t1 and not is_dict:
        res["stats"]["str_differs"] = 1
    res["hashes"][cid] = {"text": sha(_ADDR.sub("0xADDR", t1)), "picture": "", "repr": True}
    res["stats"].update({"chars": len(t1), "objects": len(S["nodes"])})
    for d in depths:
        if d == 3:
            text = t1
        elif is_dict:
            continue
        else:
            text = Reprifier(truncation_depth=d)(root)
        T = vizrepr.normalise_term(vizrepr.parse_repr(text))
        res["records"].append({"id": f"{cid}@{d}", "kind": "repr", "src": S, "tree": T,
                               "depth": d})
        res["stats"][f"term_nodes@{d}"] = len(T["nodes"])
    if not is_dict:
        # the work: every (object, depth) is evaluated once
        calls = [0]
        orig = Reprifier.rec

        def counting(self: Any, expr: Any, depth: int) -> str:
            calls[0] += 1
            return orig(self, expr, depth)
        Reprifier.rec = counting          # type: ignore[method-assign]
        try:
            for d in depths:
                calls[0] = 0
                rp = Reprifier(truncation_depth=d)
                rp(root)
                fan = max((len(n["args"]) for n in S["nodes"]), default=0) + 1
                bound = len(S["nodes"]) * (d + 2) * fan + 1
                res["stats"][f"rec_calls@{d}"] = calls[0]
                if calls[0] > bound:
                    res["problems"].append({
                        "clause": "repr_work",
                        "what": f"{calls[0]} calls of rec for {len(S['nodes'])} printable "
                                f"objects at truncation depth {d} (bound {bound}): shared "
                                f"sub-expressions are stringified once per path"})
        finally:
            Reprifier.rec = orig          # type: ignore[method-assign]
    return res


def reuse_case(cid: str, roots: list[Any], family: str) -> dict:
    """one Reprifier object used on several roots (that share nodes at other
    depths) must print each as a fresh one does"""
    from pytato.stringifier import Reprifier
    res: dict[str, Any] = {"id": cid, "family": family, "records": [], "problems": [],
                           "status": "ok", "hashes": {}, "stats": {}}
    for d in (0, 1, 3):
        rp = Reprifier(truncation_depth=d)
        for k, r in enumerate(roots):
            if rp(r) != Reprifier(truncation_depth=d)(r):
                res["problems"].append({
                    "clause": "repr_cache_reuse",
                    "what": f"root {k} printed by a used Reprifier(truncation_depth={d}) "
                            f"differs from a fresh one's text"})
    res["stats"]["reuse_checks"] = 3 * len(roots)
    return res


# --------------------------------------------------------------------------
# fancy

def fancy_case(cid: str, outs: dict[str, Any], family: str) -> dict:
    import pytato as pt
    import pytools.graphviz as gvz
    res: dict[str, Any] = {"id": cid, "family": family, "records": [], "problems": [],
                           "status": "ok", "hashes": {}, "stats": {}}
    cap: dict[str, Any] = {}
    orig = gvz.show_dot
    gvz.show_dot = lambda code, **kw: cap.update(code=code, kw=kw)      # type: ignore[assignment]
    try:
        dag = pt.make_dict_of_named_arrays(outs)
        try:
            pt.show_fancy_placeholder_data_flow(dag, output_to="svg")
        except (NotImplementedError, pt.transform.UnsupportedArrayError) as ex:
            res["status"] = "refused:" + type(ex).__name__
            return res
        except ValueError as ex:
            from . import mapperharness as mh
            if type(ex).__name__ == "UnknownIndexLambdaExpr":
                # pytato.raising's documented diagnostic: an index lambda the
                # (opinionated) picture has no symbol for
                res["status"] = "refused:UnknownIndexLambdaExpr"
                return res
            if "cache collision" in str(ex) and mh.reflect(list(outs.values())).has_dups():
                res["status"] = "refused:duplicates"
                return res
            res["problems"].append({"clause": "raised", "what": f"fancy: ValueError: {ex}"[:300],
                                    "exc": "ValueError"})
            res["status"] = "raised"
            return res
        except Exception as ex:      # noqa: BLE001
            res["problems"].append({"clause": "raised", "what": f"fancy: {type(ex).__name__}: "
                                    f"{ex}"[:300], "exc": type(ex).__name__})
            res["status"] = "raised"
            return res
        if cap.get("kw") != {"output_to": "svg"}:
            res["problems"].append({"clause": "show_text_path",
                                    "what": "keyword arguments are not passed on unmodified"})
        try:
            S = vizrepr.fancy_source(outs)
        except Unsupported as ex:
            res["status"] = "unsupported:" + str(ex)[:80]
            return res
        R = vizrepr.fancy_rendering(cap["code"])
        res["records"].append({"id": cid, "kind": "fancy", "src": S, "dot": R})
        res["hashes"][cid] = {"text": "", "picture": canon_rendering(R)}
        # show_dot_graph's text path
        cap.clear()
        want = pt.get_dot_graph(dag)
        pt.show_dot_graph(dag, output_to="svg")
        if cap.get("code") != want or cap.get("kw") != {"output_to": "svg"}:
            res["problems"].append({"clause": "show_text_path",
                                    "what": "show_dot_graph(graph) does not hand "
                                            "get_dot_graph(graph) to show_dot"})
        cap.clear()
        pt.show_dot_graph("digraph { a -> b }")
        if cap.get("code") != "digraph { a -> b }":
            res["problems"].append({"clause": "show_text_path",
                                    "what": "show_dot_graph(str) alters the text"})
    finally:
        gvz.show_dot = orig      # type: ignore[assignment]
    return res


# --------------------------------------------------------------------------
# programs as data with tags that need escaping

def build_prog(prog: dict) -> dict[str, Any]:
    """progspace program -> output dictionary; prog["ntags"] = [[value number,
    index into NASTY]]: those values are tagged where they are USED later too
    (the program is replayed with the tagged value in their place)"""
    from . import replay as rp
    from .viztags import NASTY, NastyTag
    want = {int(k): int(t) for k, t in prog.get("ntags", [])}

    class B(rp.PtBackend):
        def run(self, prog: dict, stop_on_reject: bool = True) -> list[Any]:
            self.prog = prog
            self.values = []
            self.rejections = {}
            for inp in prog["inputs"]:
                self.values.append(self._tag(self.make_input(inp)))
            for call in prog["calls"]:
                try:
                    self.values.append(self._tag(self.call(call)))
                except rp.Rejected as r:
                    self.rejections[len(self.values) + 1] = r
                    self.values.append(None)
                    if stop_on_reject:
                        break
            return self.values

        def _tag(self, v: Any) -> Any:
            k = len(self.values) + 1
            if k in want and hasattr(v, "tagged"):
                return v.tagged(NastyTag(NASTY[want[k] % len(NASTY)]))
            return v
    b = B()
    b.run(prog)
    if b.rejections:
        raise Unsupported("program rejected")
    import pytato as pt
    outs = b.outs()
    if not all(isinstance(v, pt.Array) for v in outs.values()):
        raise Unsupported("non-array output")
    return outs


# --------------------------------------------------------------------------
# the dispatcher

def run_job(job: dict) -> list[dict]:
    """-> list of case results"""
    kind = job["kind"]
    jid = job["id"]
    out: list[dict] = []
    try:
        if kind == "witness":
            from . import mapperharness as mh
            g = mh.all_witnesses()[job["name"]]
            outs = dict(g._data)
            out.append(dot_case(jid, outs, "witness"))
            out.append(repr_case(jid + "/repr", g, "witness"))
            for nm, a in outs.items():
                out.append(repr_case(f"{jid}/repr/{nm}", a, "witness",
                                     depths=tuple(job.get("depths", (0, 1, 3, 6)))))
            out.append(fancy_case(jid + "/fancy", outs, "witness"))
        elif kind == "api":
            outs = api_graphs()[job["name"]]()
            if job["name"] == "duplicates":
                out.append(dot_case(jid, outs, "api"))
            else:
                import pytato as pt
                outs_d = dict(pt.transform.deduplicate(pt.make_dict_of_named_arrays(outs))._data) \
                    if outs else {}
                out.append(dot_case(jid, outs_d if job.get("dedup", True) else outs, "api"))
            if job.get("traceback"):
                pass
            if outs:
                import pytato as pt
                out.append(repr_case(jid + "/repr", pt.make_dict_of_named_arrays(outs), "api"))
                for nm, a in list(outs.items()):
                    out.append(repr_case(f"{jid}/repr/{nm}", a, "api",
                                         depths=tuple(job.get("depths", (0, 2, 3, 5)))))
                out.append(fancy_case(jid + "/fancy", outs, "api"))
                out.append(reuse_case(jid + "/reuse", list(outs.values()), "api"))
        elif kind == "traceback":
            import pytato as pt
            pt.set_traceback_tag_enabled(True)
            try:
                outs = api_graphs()[job["name"]]()
                out.append(dot_case(jid, outs, "traceback"))
            finally:
                pt.set_traceback_tag_enabled(False)
        elif kind == "names":
            outs = nasty_name_cases()[job["name"]]()
            out.append(dot_case(jid, outs, "names"))
            if job["name"].startswith("placeholder/") or job["name"].startswith("output/"):
                out.append(fancy_case(jid + "/fancy", outs, "names"))
        elif kind == "handpart":
            out.append(dot_case(jid, hand_partitions()[job["name"]](), "handpart",
                                partition=True))
        elif kind == "t1":
            from . import mapperharness as mh
            root, _, _ = mh.build_t1(job["ch"], job["rep"], job["scheme"], leaf=job["leaf"],
                                     root=job["root"])
            outs = dict(root._data) if job["root"] == "dict" else {"_pt_out": root}
            out.append(dot_case(jid, outs, "t1:" + job["scheme"], gv=job.get("gv", False)))
            if job.get("repr"):
                out.append(repr_case(jid + "/repr", root if job["root"] == "array"
                                     else outs["out0"], "t1:" + job["scheme"],
                                     depths=(1, 3)))
        elif kind == "prog":
            outs = build_prog(job["prog"])
            import pytato as pt
            d = dict(pt.transform.deduplicate(pt.make_dict_of_named_arrays(outs))._data)
            out.append(dot_case(jid, d, "random", gv=job.get("gv", False)))
            if job.get("repr"):
                nm = next(iter(outs))
                out.append(repr_case(f"{jid}/repr", outs[nm], "random", depths=(2, 3)))
            if job.get("fancy"):
                out.append(fancy_case(jid + "/fancy", outs, "random"))
        elif kind == "dist":
            from . import distharness
            prog = job["prog"]
            pl = distharness.run_pipeline(prog)
            if not pl.partitioned:
                out.append({"id": jid, "family": "dist", "records": [], "problems": [],
                            "status": "unsupported:not partitioned", "hashes": {}, "stats": {}})
            else:
                for r in range(prog["nranks"]):
                    for which, parts in (("sym", pl.sym[r]), ("num", pl.num[r])):
                        if parts is not None and (which == "sym" or job.get("num", True)):
                            out.append(dot_case(f"{jid}/r{r}/{which}", parts, "dist",
                                                partition=True, gv=job.get("gv", False)))
        elif kind == "ladder":
            from . import mapperharness as mh
            shapes = {n: (ch, rep) for n, ch, rep in mh.ladder_shapes(job["depth"])}
            ch, rep = shapes[job["shape"]]
            root, _, _ = mh.build_t1(ch, rep, job["scheme"])
            out.append(repr_case(jid, root, "ladder:" + job["scheme"],
                                 depths=tuple(job["depths"])))
            if job.get("dot"):
                out.append(dot_case(jid + "/dot", {"_pt_out": root}, "ladder:" + job["scheme"],
                                    gv=False))
        else:
            raise ValueError(kind)
    except Unsupported as ex:
        out.append({"id": jid, "family": kind, "records": [], "problems": [],
                    "status": "unsupported:" + str(ex)[:80], "hashes": {}, "stats": {}})
    for r in out:
        r["job"] = job
    return out


def run_jobs(jobs: list[dict]) -> list[list[dict]]:
    return [run_job(j) for j in jobs]


def hashes_only(jobs: list[dict]) -> dict[str, dict]:
    out: dict[str, dict] = {}
    for j in jobs:
        for r in run_job(j):
            out.update(r["hashes"])
    return out


if __name__ == "__main__":
    import warnings
    warnings.simplefilter("ignore")
    with open(sys.argv[1]) as f:
        jobs_ = json.load(f)
    with open(sys.argv[2], "w") as f:
        json.dump(hashes_only(jobs_), f)
