"""C17: what one interpreter process *emits* for a fixed program: canonical
loopy kernel text, loopy's persistent key of the translation unit, the C
source, the generated Python source, and for multi-rank programs the
partition summary and the tag-number map of every rank.

A program is data (the same JSON text in every process):
  {"id": ..., "kind": "hand", "name": <builder below>}
  {"id": ..., "kind": "json", "prog": <ptverif.replay program>}
  {"id": ..., "kind": "dist", "prog": <ptverif.distharness program>}

Everything emitted is a *text*; digests (sha256) and texts travel back to the
coordinator, which lets TLC (spec/PtProcess.tla) judge SingleValued/Witnessed
and produces a unified diff for a mismatch.
"""
from __future__ import annotations

import gc
import hashlib
import json
from typing import Any, Callable

import numpy as np

from .common import MachineryError

F8 = np.float64


# --------------------------------------------------------------------------
# hand-written programs (features the JSON replay language does not have)

def _data(name: str, shape: tuple, dtype: Any = F8) -> np.ndarray:
    rng = np.random.default_rng(int(hashlib.sha256(name.encode()).hexdigest()[:8], 16))
    if np.dtype(dtype).kind in "iu":
        return rng.integers(0, 3, size=shape).astype(dtype)
    return rng.integers(-4, 5, size=shape).astype(dtype)


def h_multiout() -> dict[str, Any]:
    import pytato as pt
    x = pt.make_placeholder("x", (3, 4), F8)
    y = pt.make_placeholder("y", (3, 4), F8)
    s = pt.sin(x) + y
    t = s * s
    return {"out_a": t + 1, "out_b": pt.sum(t, axis=0), "out_c": s[1:, ::2],
            "out_d": pt.concatenate([s, t], axis=1), "out_e": (t.T @ s),
            "out_f": pt.where(pt.greater(s, 0), s, t)}


def h_reductions() -> dict[str, Any]:
    import pytato as pt
    x = pt.make_placeholder("x", (3, 4, 2), F8)
    b = pt.make_placeholder("b", (3, 4), np.bool_)
    return {"s0": pt.sum(x, axis=0), "s12": pt.sum(x, axis=(1, 2)), "p": pt.prod(x, axis=1),
            "mx": pt.amax(x, axis=2), "mn": pt.amin(x), "al": pt.all(b, axis=1),
            "an": pt.any(b), "ss": pt.sum(pt.sum(x, axis=2) * pt.amax(x, axis=2), axis=0)}


def h_einsum() -> dict[str, Any]:
    import pytato as pt
    a = pt.make_placeholder("a", (3, 4), F8)
    b = pt.make_placeholder("b", (4, 5), F8)
    c = pt.make_placeholder("c", (5, 3), F8)
    q = pt.make_placeholder("q", (3, 3), F8)
    return {"mm": pt.einsum("ij,jk->ik", a, b), "tr": pt.einsum("ii->", q),
            "dg": pt.einsum("ii->i", q), "three": pt.einsum("ij,jk,ki->i", a, b, c),
            "outer": pt.einsum("ij,kl->ijkl", a, c)[0, :, :, 1],
            "chain": (a @ b) @ c}


def h_indexing() -> dict[str, Any]:
    import pytato as pt
    x = pt.make_placeholder("x", (5, 4, 3), F8)
    i = pt.make_data_wrapper(np.array([0, 2, -1], np.int64))
    j = pt.make_data_wrapper(np.array([[1], [0]], np.int64))
    k = pt.make_placeholder("k", (3,), np.int32)
    return {"b1": x[1:4, ::-1, 0], "b2": x[::2], "a1": x[i], "a2": x[i, :, k],
            "a3": x[j, i % 3], "a4": x[:, i % 4, i % 3], "r": pt.roll(x, 2, 1)[i],
            "rs": pt.reshape(x[:, :, 1], (4, 5), order="F")}


def h_datawrappers() -> dict[str, Any]:
    """many unnamed data wrappers (generated names) and some named ones"""
    import pytato as pt
    ds = [pt.make_data_wrapper(_data(f"d{n}", (4,))) for n in range(7)]
    named = [pt.make_data_wrapper(_data("na", (4,)), name="alpha"),
             pt.make_data_wrapper(_data("nb", (4,)), name="beta")]
    x = pt.make_placeholder("x", (4,), F8)
    acc = x
    for n, d in enumerate(ds):
        acc = acc * (n + 2) + d
    return {"o1": acc + named[0], "o2": ds[3] * ds[5] + named[1] - ds[0],
            "o3": pt.stack([ds[6], ds[1], named[0]]), "o4": ds[2] + ds[4]}


def h_calls() -> dict[str, Any]:
    import pytato as pt

    def f(u: Any, v: Any) -> Any:
        return pt.sin(u) * v + u

    def g(u: Any) -> dict[str, Any]:
        return {"twice": 2 * u, "sq": u * u}
    x = pt.make_placeholder("x", (4,), F8)
    y = pt.make_placeholder("y", (4,), F8)
    z = pt.make_placeholder("z", (4,), F8)
    r1 = pt.trace_call(f, x, y)
    r2 = pt.trace_call(f, y, z)
    r3 = pt.trace_call(g, r1)
    def h(velocity: Any, rho: Any, energy: Any, gamma: Any) -> Any:
        return velocity * rho + energy - gamma
    r4 = pt.trace_call(h, velocity=x, rho=y, energy=z, gamma=r1)
    return {"c1": r1 + r2, "c2": r3["twice"] - r3["sq"], "c3": pt.trace_call(f, r2, r1),
            "c4": r4 * 2}


def h_calls_stay() -> dict[str, Any]:
    """the same with the calls left in place (targets refuse; the refusal is
    an emission too)"""
    return h_calls()


def h_manyargs() -> dict[str, Any]:
    """a dozen placeholders with unrelated names in one expression"""
    import pytato as pt
    names = ["velocity", "rho", "E", "p_inf", "gamma", "mu", "kappa", "zeta", "T0",
             "alpha_s", "omega", "nu_t", "cfl", "dt"]
    phs = [pt.make_placeholder(n, (3,), F8) for n in names]
    acc = phs[0]
    for k, p in enumerate(phs[1:]):
        acc = acc + p * (k + 1)
    return {"sum": acc, "prod": phs[3] * phs[7] * phs[11], "mix": phs[13] - phs[2] / 2}


def h_chain() -> dict[str, Any]:
    import pytato as pt
    x = pt.make_placeholder("x", (4, 3), F8)
    y = pt.make_placeholder("y", (4, 3), np.float32)
    n = pt.make_placeholder("n", (4, 3), np.int64)
    s = pt.stack([x, y.astype(F8)], axis=1)
    r = pt.roll(pt.reshape(s, (6, 4)), -1, 0)
    m = pt.maximum(x, y) + pt.minimum(n, 2)
    return {"r": r, "m": m, "w": pt.where(pt.greater(n, 1), x, -y), "e": pt.exp(-abs(x)) ** 2,
            "c": pt.logical_and(pt.greater(x, y), pt.not_equal(n, 0)), "t": pt.transpose(s, (2, 0, 1))}


def h_stored() -> dict[str, Any]:
    """shared subexpressions tagged ImplStored / named: many temporaries"""
    import pytato as pt
    from pytato.tags import ImplStored, Named, PrefixNamed
    x = pt.make_placeholder("x", (5,), F8)
    t1 = (pt.sin(x) + 1).tagged(ImplStored())
    t2 = (t1 * t1).tagged((ImplStored(), PrefixNamed("sq")))
    t3 = (t2 - x).tagged((ImplStored(), Named("diff")))
    t4 = pt.cos(t1).tagged(ImplStored())
    return {f"o{k}": e for k, e in enumerate([t1 + t2, t2 * t3, t3 + t4, t4 - t1,
                                              pt.sum(t2 * t4), t1 + t3 + t4])}


def h_sizeparam() -> dict[str, Any]:
    import pytato as pt
    n = pt.make_size_param("n")
    m = pt.make_size_param("m")
    x = pt.make_placeholder("x", (n, 3), F8)
    y = pt.make_placeholder("y", (n, m), F8)
    return {"a": x * 2 + 1, "b": pt.sum(x, axis=1), "c": x[:, 0], "d": y.T,
            "e": pt.roll(y, 1, 0) + y}


def h_tagged() -> dict[str, Any]:
    import pytato as pt

    from . import usertags
    x = pt.make_placeholder("x", (3, 3), F8).tagged(usertags.FooTag())
    y = pt.make_placeholder("y", (3, 3), F8).with_tagged_axis(0, usertags.BarTag())
    s = (x + y).tagged((usertags.BazTag(1), usertags.BazTag(2), usertags.FooTag()))
    e = pt.einsum("ij,jk->ik", s, y)
    e = e.with_tagged_reduction(next(iter(e.redn_axis_to_redn_descr)), usertags.BarTag())
    return {"s": s, "e": e, "t": s.T.with_tagged_axis(1, usertags.BazTag(7))}


def h_nesteddict() -> dict[str, Any]:
    """named arrays of an inner DictOfNamedArrays used inside expressions"""
    import pytato as pt
    x = pt.make_placeholder("x", (4,), F8)
    s = pt.sin(x)
    inner = pt.make_dict_of_named_arrays({
        "zeta": s * 2, "alpha": s + 1, "mid": pt.cos(x), "kappa": s * s, "beta": x - s,
        "omega": pt.exp(x), "delta": x * 3})
    return {"o1": inner["zeta"] + inner["alpha"] * inner["omega"],
            "o2": inner["mid"] - inner["kappa"] + inner["delta"],
            "o3": inner["beta"] * inner["zeta"]}


def h_outputdag() -> dict[str, Any]:
    """outputs that are subexpressions of other outputs (the order in which
    outputs are computed comes from a topological sort of this DAG)"""
    import pytato as pt
    x = pt.make_placeholder("x", (4,), F8)
    y = pt.make_placeholder("y", (4,), F8)
    a = pt.sin(x) + y
    b = a * 2
    c = pt.cos(y) - x
    d = a + b * c
    e = b - c
    f = d * e + a
    g = pt.exp(c)
    h = f + g + e
    return {"w_out": h, "m_out": a, "z_out": d, "k_out": b, "q_out": c, "b_out": f,
            "t_out": e, "e_out": g}


def h_dict_from_set() -> dict[str, Any]:
    """The output mapping is filled by iterating a frozenset of names, i.e. in
    an insertion order that differs between interpreter processes (and is not
    sorted); every output reaches its own unnamed data wrapper.  What is
    generated must depend on the CONTENT of the mapping only."""
    import pytato as pt
    x = pt.make_placeholder("x", (4,), F8)
    exprs = {nm: x * (k + 2) + pt.make_data_wrapper(_data("fs" + nm, (4,)))
             for k, nm in enumerate(["lift", "mass", "drag", "flux", "work", "heat"])}
    return {nm: exprs[nm] for nm in frozenset(exprs)}


def h_dict_unsorted() -> dict[str, Any]:
    """the same content inserted in a fixed, non-sorted order"""
    import pytato as pt
    x = pt.make_placeholder("x", (4,), F8)
    order = ["work", "drag", "mass", "heat", "lift", "flux"]
    names = ["lift", "mass", "drag", "flux", "work", "heat"]
    exprs = {nm: x * (k + 2) + pt.make_data_wrapper(_data("fs" + nm, (4,)))
             for k, nm in enumerate(names)}
    return {nm: exprs[nm] for nm in order}


_KNL: dict[str, Any] = {}


def h_loopycall() -> dict[str, Any]:
    """a call to a hand-written loopy kernel whose arguments are expressions
    over unnamed data wrappers (their names are generated while the bindings
    are traversed)"""
    import loopy as lp

    import pytato as pt
    from pytato.loopy import call_loopy

    from . import cexec
    if "k" not in _KNL:
        _KNL["k"] = lp.make_kernel(
            "{[i]: 0<=i<4}",
            """
            res[i] = 2*velocity[i] + alpha[i]*mass[i] - zeta[i] + beta[i]
            aux[i] = zeta[i]*alpha[i]
            """,
            [lp.GlobalArg("velocity,alpha,mass,zeta,beta", np.float64, shape=(4,)),
             lp.GlobalArg("res,aux", np.float64, shape=(4,), is_output=True)],
            name="combine", lang_version=(2018, 2), target=cexec._make_target())
    x = pt.make_placeholder("x", (4,), F8)
    ds = [pt.make_data_wrapper(_data(f"lc{n}", (4,))) for n in range(5)]
    call = call_loopy(_KNL["k"], {"velocity": x + ds[0], "alpha": ds[1] * 2, "mass": ds[2],
                                  "zeta": pt.sin(x) * ds[3], "beta": ds[4] - x})
    return {"r": call["res"] + 1, "a": call["aux"] * call["res"], "d": ds[2] + ds[4]}


HAND: dict[str, Callable[[], dict[str, Any]]] = {
    "multiout": h_multiout, "reductions": h_reductions, "einsum": h_einsum,
    "indexing": h_indexing, "datawrappers": h_datawrappers, "calls": h_calls,
    "calls_stay": h_calls_stay,
    "manyargs": h_manyargs, "chain": h_chain, "stored": h_stored,
    "sizeparam": h_sizeparam, "tagged": h_tagged, "nesteddict": h_nesteddict,
    "loopycall": h_loopycall, "outputdag": h_outputdag,
    "dict_from_set": h_dict_from_set, "dict_unsorted": h_dict_unsorted,
}


def build_outputs(p: dict) -> dict[str, Any]:
    if p["kind"] == "hand":
        return HAND[p["name"]]()
    if p["kind"] == "json":
        from . import replay as rp
        prog = p["prog"]
        data = {i["name"]: (np.array(i["data"], rp.DT[i["dtype"]]).reshape(i["shape"])
                            if "data" in i else _data(i["name"], tuple(i["shape"]),
                                                      rp.DT[i["dtype"]]))
                for i in prog["inputs"] if i.get("kind") == "dw"}
        b = rp.PtBackend(data)
        b.run(prog)
        if b.rejections:
            raise MachineryError(f"program {p['id']} is rejected by pytato: "
                                 f"{next(iter(b.rejections.values()))}")
        return b.outs()
    raise MachineryError(f"unknown program kind {p['kind']}")


# --------------------------------------------------------------------------
# canonical texts

def kernel_text(t_unit: Any, bound: Any) -> str:
    """Every ordered collection in its own order (argument order, instruction
    order are part of what is compared), every *set* sorted."""
    import loopy as lp
    lines = []
    for name in sorted(t_unit.callables_table):
        clbl = t_unit.callables_table[name]
        knl = getattr(clbl, "subkernel", None)
        if knl is None:
            lines.append(f"callable {name}: {type(clbl).__name__}")
            continue
        lines.append(f"kernel {knl.name} entrypoint={name in t_unit.entrypoints}")
        for a in knl.args:
            lines.append("  arg " + " ".join(str(x) for x in (
                a.name, type(a).__name__, getattr(a, "dtype", None),
                getattr(a, "shape", None), getattr(a, "dim_tags", None),
                getattr(a, "is_output", None), getattr(a, "is_input", None),
                sorted(str(t) for t in getattr(a, "tags", ()) or ()))))
        for tn in sorted(knl.temporary_variables):
            tv = knl.temporary_variables[tn]
            lines.append(f"  temp {tn} {tv.dtype} {tv.shape} {tv.address_space} "
                         f"{sorted(str(t) for t in tv.tags)}")
        for d in knl.domains:
            lines.append(f"  domain {d}")
        for iname in sorted(knl.inames):
            lines.append(f"  iname {iname} {sorted(str(t) for t in knl.inames[iname].tags)}")
        for insn in knl.instructions:
            lines.append(
                f"  insn {insn.id}: {type(insn).__name__} "
                f"{getattr(insn, 'assignees', None)} <- {getattr(insn, 'expression', None)} "
                f"within={sorted(insn.within_inames)} deps={sorted(insn.depends_on)} "
                f"pred={sorted(str(p) for p in insn.predicates)} "
                f"tags={sorted(str(t) for t in insn.tags)} "
                f"groups={sorted(insn.groups)} nosync={sorted(map(str, insn.no_sync_with))}")
        for sn in sorted(knl.substitutions):
            lines.append(f"  substitution {knl.substitutions[sn]}")
        lines.append(f"  target {type(knl.target).__name__} options "
                     f"{sorted((k, str(v)) for k, v in vars(knl.options).items() if not k.startswith('_'))}")
        assert isinstance(knl, lp.LoopKernel)
    lines.append(f"bound_arguments {sorted(bound)}")
    for nm in sorted(bound):
        v = bound[nm]
        a = np.asarray(v)
        lines.append(f"  bound {nm} {a.dtype} {a.shape} "
                     f"{hashlib.sha256(np.ascontiguousarray(a).tobytes()).hexdigest()[:16]}")
    return "\n".join(lines) + "\n"


def emit_single(p: dict) -> dict[str, str]:
    """kind -> text, for a single-rank program"""
    import loopy as lp
    from loopy.tools import LoopyKeyBuilder

    import pytato as pt

    from . import cexec
    out: dict[str, str] = {}
    outs = build_outputs(p)
    dag = pt.make_dict_of_named_arrays(outs)
    if p.get("inline"):
        # code generation does not take function calls: inline them first (the
        # inliner is then part of what must be process-independent)
        dag = pt.transform.deduplicate(dag)
        dag = pt.inline_calls(pt.tag_all_calls_to_be_inlined(dag))
    dag = pt.transform.deduplicate(dag)
    try:
        bp = pt.generate_loopy(dag, target=cexec.make_target())
        t_unit = bp.program
        out["lpy_text"] = kernel_text(t_unit, bp.bound_arguments)
        out["lpy_key"] = LoopyKeyBuilder()(t_unit) + "\n"
        out["csrc"] = lp.generate_code_v2(t_unit).device_code()
    except Exception as ex:          # noqa: BLE001
        # a program the target does not support is still a single-valued emission
        out["lpy_text"] = out["lpy_key"] = out["csrc"] = \
            f"raised {type(ex).__name__}: {str(ex)[:300]}\n"
    try:
        out["pysrc"] = python_source(dag)
    except Exception as ex:          # noqa: BLE001
        out["pysrc"] = f"raised {type(ex).__name__}: {str(ex)[:300]}\n"
    return out


def python_source(dag: Any) -> str:
    from pytato.target.python import BoundPythonProgram, NumpyLikePythonTarget
    from pytato.target.python.numpy_like import generate_numpy_like

    class T(NumpyLikePythonTarget):
        @property
        def numpy_like_module_name(self) -> str:
            return "numpy"

        @property
        def numpy_like_module_name_shorthand(self) -> str:
            return "_pt_np"

        def bind_program(self, program: str, entrypoint: str, expected_arguments: Any,
                         bound_arguments: Any) -> Any:
            return BoundPythonProgram(target=self, program=program,
                                      bound_arguments=bound_arguments,
                                      entrypoint=entrypoint,
                                      expected_arguments=expected_arguments)
    bp = generate_numpy_like(dag, T(), "_pt_kernel", False, (), ())
    bound = []
    for nm in sorted(bp.bound_arguments):
        a = np.asarray(bp.bound_arguments[nm])
        bound.append(f"# bound {nm} {a.dtype} {a.shape} "
                     f"{hashlib.sha256(np.ascontiguousarray(a).tobytes()).hexdigest()[:16]}")
    return bp.program + "\n" + "\n".join(bound) + "\n"


# --------------------------------------------------------------------------
# distributed programs

def canon_struct(obj: Any) -> str:
    """Reflective canonical text of a partition (dataclass fields; sets and
    mappings sorted; lists and tuples in their own order)."""
    from .eqexport import FamilyExporter
    ex = FamilyExporter(sorted_maps=True)
    v = ex.val(obj, "partition")
    lines = [f"node {k + 1}: {json.dumps(n, sort_keys=True)}" for k, n in enumerate(ex.nodes)]
    lines.append("value: " + json.dumps(v, sort_keys=True))
    return "\n".join(lines) + "\n"


def canon_tag(t: Any) -> str:
    """A communication tag as canonical text (repr of a frozenset prints its
    elements in hash order, which would be a false alarm)."""
    from .eqexport import FamilyExporter

    def short(v: dict) -> Any:
        if v["t"] in ("tup", "set"):
            inner = [short(e) for e in v["e"]]
            return inner if v["t"] == "tup" else {"set": inner}
        if v["t"] == "rec":
            return {v["c"].rsplit(".", 1)[-1]: [[k, short(x)] for k, x in v["e"]]}
        for k in ("i", "s", "b", "f", "y"):
            if k in v:
                return v[k] if k != "i" else int(v[k])
        return v
    return json.dumps(short(FamilyExporter().val(t, "comm_tag")), sort_keys=True)


def part_summary(part: Any) -> str:
    """Part structure and names, human readable (in addition to the full
    canonical structure)."""
    lines = [f"overall_output_names {list(part.overall_output_names)}"]
    for pid in sorted(part.parts, key=str):
        pt_ = part.parts[pid]
        lines.append(f"part {pid}: needed={sorted(map(str, pt_.needed_pids))} "
                     f"user_in={sorted(pt_.user_input_names)} "
                     f"part_in={sorted(pt_.partition_input_names)} "
                     f"out={sorted(pt_.output_names)}")
        for nm in sorted(pt_.name_to_recv_node):
            rv = pt_.name_to_recv_node[nm]
            lines.append(f"  recv {nm} <- rank {rv.src_rank} tag {canon_tag(rv.comm_tag)} "
                         f"{rv.shape} {rv.dtype}")
        for nm in sorted(pt_.name_to_send_nodes):
            for sd in pt_.name_to_send_nodes[nm]:
                lines.append(f"  send {nm} -> rank {sd.dest_rank} tag "
                             f"{canon_tag(sd.comm_tag)}")
    lines.append(f"name_to_output {sorted(part.name_to_output)}")
    return "\n".join(lines) + "\n"


def tag_map(sym: Any, num: Any, next_tag: Any) -> str:
    m: dict[str, set] = {}
    for pid in sym.parts:
        ps, pn = sym.parts[pid], num.parts[pid]
        for nm, rv in ps.name_to_recv_node.items():
            m.setdefault(canon_tag(rv.comm_tag), set()).add(
                pn.name_to_recv_node[nm].comm_tag)
        for nm, sds in ps.name_to_send_nodes.items():
            for a, b in zip(sds, pn.name_to_send_nodes[nm]):
                m.setdefault(canon_tag(a.comm_tag), set()).add(b.comm_tag)
    lines = [f"{k} -> {sorted(v)}" for k, v in sorted(m.items())]
    lines.append(f"next_tag {next_tag}")
    return "\n".join(lines) + "\n"


def denotes(part: Any) -> str:
    """What every generated / user name of the partition DENOTES: name ->
    digest of the canonical form of the array, its class and the inputs it is
    computed from (placeholder names, data digests, receives)."""
    from pytato.array import DataWrapper, Placeholder
    from pytato.distributed.nodes import DistributedRecv

    from .eqexport import FamilyExporter, reachable_entities
    lines = []
    for nm in sorted(part.name_to_output):
        a = part.name_to_output[nm]
        ex = FamilyExporter(sorted_maps=True)
        root = ex.val(a, "name_to_output")
        dig = hashlib.sha256(json.dumps([root, ex.nodes], sort_keys=True).encode()
                             ).hexdigest()[:16]
        leaves = []
        for e in reachable_entities(a):
            if isinstance(e, Placeholder):
                leaves.append(f"ph:{e.name}")
            elif isinstance(e, DataWrapper):
                leaves.append("dw:" + hashlib.sha256(
                    np.ascontiguousarray(e.data).tobytes()).hexdigest()[:8])
            elif isinstance(e, DistributedRecv):
                leaves.append(f"recv:{e.src_rank}:{canon_tag(e.comm_tag)}")
        lines.append(f"denotes {nm} = {dig} {type(a).__name__} from {sorted(set(leaves))}")
    return "\n".join(lines) + "\n"


def part_code(pl: Any) -> dict[str, str]:
    """pytato's own generate_code_for_partition for every rank (harness C
    target, see distcheck.generate_part_code): per part the canonical kernel
    text with the bound arguments (name -> digest of the data object) and the
    C source."""
    import loopy as lp

    from . import distcheck
    prgs, errs = distcheck.generate_part_code(pl)
    out = {}
    bad = {e["rank"]: e for e in errs}
    for r, pr in enumerate(prgs):
        if pr is None:
            out[f"partcode@{r}"] = f"raised {bad[r]['exc']}: {bad[r]['msg']}\n"
            continue
        chunks = []
        for pid in sorted(pr, key=str):
            bp = pr[pid]
            chunks.append(f"== part {pid}\n" + kernel_text(bp.program, bp.bound_arguments))
            try:
                chunks.append(lp.generate_code_v2(bp.program).device_code())
            except Exception as ex:      # noqa: BLE001
                chunks.append(f"raised {type(ex).__name__}: {str(ex)[:200]}\n")
        out[f"partcode@{r}"] = "\n".join(chunks) + "\n"
    return out


def emit_dist(p: dict) -> dict[str, str]:
    from . import distharness
    pl = distharness.run_pipeline(p["prog"], seed=0)
    out: dict[str, str] = {}
    n = p["prog"]["nranks"]
    if not pl.partitioned:
        txt = "not partitioned: " + " | ".join(pl.summary()) + "\n"
        for r in range(n):
            out[f"part@{r}"] = txt
            out[f"tags@{r}"] = txt
        return out
    if p.get("partcode") and all(x is not None for x in pl.num):
        out.update(part_code(pl))
    for r in range(n):
        out[f"part@{r}"] = part_summary(pl.sym[r]) + denotes(pl.sym[r]) \
            + canon_struct(pl.sym[r])
        if pl.num[r] is not None:
            out[f"tags@{r}"] = tag_map(pl.sym[r], pl.num[r], pl.next_tag[r])
        else:
            out[f"tags@{r}"] = "not numbered: " + pl.summary()[r] + "\n"
    return out


# --------------------------------------------------------------------------
# hand-written multi-rank programs (ptverif.distharness program format): parts
# with several outputs over several unnamed data wrappers; several inputs used
# both in what is sent and in what is computed after the reply

def dist_hand() -> list[dict]:
    def prog(pid: str, ranks: list[dict]) -> dict:
        return {"id": pid, "nranks": len(ranks), "tagkind": "str", "ranks": ranks,
                "features": {}}
    progs = []
    # 1 rank, one part, five outputs, each over its own unnamed data wrapper
    nodes: list[dict] = [{"k": "in", "name": "x"}]
    outs = []
    for k, nm in enumerate(["lift", "mass", "drag", "flux", "work"]):
        nodes.append({"k": "dw", "vals": [11 * (k + 1), 7 * k + 3]})
        nodes.append({"k": "op", "args": [0, len(nodes) - 1]})
        outs.append([f"out_{nm}", len(nodes) - 1])
    progs.append(prog("hand/dist_outs_over_dws", [{"nodes": nodes, "outs": outs}]))
    # rank 0 sends four arrays, each computed from its own data wrapper, in one part
    nodes = [{"k": "in", "name": "x"}]
    sent = []
    for k in range(4):
        nodes.append({"k": "dw", "vals": [5 * k + 2, 3 * k + 9]})
        nodes.append({"k": "op", "args": [0, len(nodes) - 1]})
        sent.append(len(nodes) - 1)
    nodes.append({"k": "dw", "vals": [101, 103]})
    nodes.append({"k": "op", "args": [0, len(nodes) - 1]})
    h = len(nodes) - 1
    for k, sidx in enumerate(sent):
        nodes.append({"k": "hold", "data": sidx, "dst": 1, "tag": k + 1, "pass": h})
        h = len(nodes) - 1
    r0 = {"nodes": nodes, "outs": [["out", h]]}
    n1: list[dict] = [{"k": "in", "name": "y"}]
    rv = []
    for k in (3, 1, 4, 2):
        n1.append({"k": "recv", "src": 0, "tag": k, "v": 0})
        rv.append(len(n1) - 1)
    n1.append({"k": "op", "args": [0, *rv]})
    progs.append(prog("hand/dist_sends_over_dws", [r0, {"nodes": n1, "outs": [["out", len(n1) - 1]]}]))
    # several inputs (4 placeholders + 1 data wrapper) used in the sent data AND after
    # the reply: the output of the second part has five materialised predecessors
    # in the first part
    for variant in ("out", "send"):
        nodes = [{"k": "in", "name": nm} for nm in ("u", "v", "t", "s")]
        nodes.append({"k": "dw", "vals": [13, 17]})
        ins = list(range(5))
        nodes.append({"k": "op", "args": ins})
        data = len(nodes) - 1
        nodes.append({"k": "recv", "src": 1, "tag": 2, "v": 0})
        halo = len(nodes) - 1
        nodes.append({"k": "op", "args": [halo, *ins]})
        after = len(nodes) - 1
        nodes.append({"k": "hold", "data": data, "dst": 1, "tag": 1, "pass": after})
        o = len(nodes) - 1
        n1 = [{"k": "in", "name": "y"}, {"k": "recv", "src": 0, "tag": 1, "v": 0}]
        n1.append({"k": "op", "args": [1, 0]})
        n1.append({"k": "op", "args": [0, 1]})
        n1.append({"k": "hold", "data": 2, "dst": 0, "tag": 2, "pass": 3})
        o1 = len(n1) - 1
        if variant == "send":
            # the stored array with many predecessors is itself SENT in a later part
            nodes.append({"k": "op", "args": [halo, 3, 1, 4, 0, 2]})
            nodes.append({"k": "hold", "data": len(nodes) - 1, "dst": 1, "tag": 3, "pass": o})
            o = len(nodes) - 1
            n1.append({"k": "recv", "src": 0, "tag": 3, "v": 0})
            n1.append({"k": "op", "args": [o1, len(n1) - 1]})
            o1 = len(n1) - 1
        progs.append(prog(f"hand/dist_inputs_both_sides_{variant}",
                          [{"nodes": nodes, "outs": [["out", o]]},
                           {"nodes": n1, "outs": [["out", o1]]}]))
    return progs


# --------------------------------------------------------------------------
# the process

_junk: list[Any] = []


def disturb(k: int) -> None:
    """Change the allocation history: build other graphs, keep some alive,
    drop others, collect."""
    import pytato as pt
    rng = np.random.default_rng(k)
    for j in range(int(rng.integers(3, 9))):
        x = pt.make_placeholder(f"junk{j}", (int(rng.integers(1, 5)),), F8)
        d = pt.make_data_wrapper(np.zeros(int(rng.integers(1, 50))))
        e = pt.sin(x) * (j + 1) + pt.sum(d)
        if rng.random() < 0.5:
            _junk.append((e, bytearray(int(rng.integers(1, 4000)))))
    if len(_junk) > 40:
        del _junk[:int(rng.integers(1, 30))]
    gc.collect()


def h_emit(programs: list[dict], warm: bool, reps: int = 2, texts: bool = True
           ) -> list[dict]:
    """-> events {"prog", "kind", "rep", "digest", "text"}"""
    events = []
    for n, p in enumerate(programs):
        for rep in range(1, reps + 1):
            if warm:
                disturb(17 * n + rep)
            em = emit_dist(p) if p["kind"] == "dist" else emit_single(p)
            for kind, text in sorted(em.items()):
                ev = {"prog": p["id"], "kind": kind, "rep": rep,
                      "digest": hashlib.sha256(text.encode()).hexdigest()}
                if texts:
                    ev["text"] = text
                events.append(ev)
    return events


HANDLERS = {"emit": h_emit}
