"""Harness of X02 ("renderings are faithful"): pytato.visualization.dot,
fancy_placeholder_data_flow, pytato.stringifier.

Pieces (all independent of the code under test -- no pytato mapper, no
pytato ==; the only pytato code used is the public API that BUILDS graphs):

* ``source(...)``     the SOURCE record S of a graph / partition: a reflective
                      walk over dataclass fields (mapperharness.reflect),
                      hash-consed per name space, every node with the label a
                      picture owes it (title, MUST / MAY fields) and its
                      dependency edges with the label the drawing convention
                      gives them; functions; parts with their names
* ``rendering(...)``  the abstract RENDERING R read off a DOT text (vizdot)
* ``picture(S, mode)``the picture the specification expects for S (items,
                      edges, clusters) -- the hand computation of what
                      spec/PtDot.tla defines as Picture
* ``judge(rec)``      the hand computation of the verdict of spec/PtDotCheck
"""
from __future__ import annotations

import dataclasses
import html
import re
from typing import Any

import numpy as np

from . import mapperharness as mh
from . import vizdot
from .mapperharness import ReflectError

MAY_KINDS = ("shape", "newshape", "slicebound")
MODES = ((), ("shape",), ("shape", "newshape", "slicebound"))
ANY_KEYS = ("addr", "data")


class Unsupported(Exception):
    pass


# --------------------------------------------------------------------------
# display conventions (what a label shows for a value)

def disp(s: str) -> str:
    """labels show spaces as underscores (dot_escape)"""
    return s.replace(" ", "_")


def show_tuple(t: tuple) -> str:
    comps = [str(e) for e in t]
    if len(comps) == 1:
        comps[0] += ","
    return "(" + ", ".join(comps) + ")"


def show_tags(tags: Any) -> str:
    return "{" + ", ".join(sorted(str(t) for t in tags)) + "}"


def norm_value(key: str, v: str) -> str:
    """both sides: the empty tuple may be shown as "()" or "(,)"; a run of
    backslashes stands for a backslash (backslashes may be doubled for
    graphviz, and a repr inside the text doubles them once more)"""
    v = re.sub(r"\\+", r"\\", v)
    if v == "(,)":
        v = "()"
    return v


#: per type: the parameter fields a label MUST show (besides shape / dtype /
#: tags for arrays); every other non-array field MAY be shown
PARAMS = {
    "Placeholder": ("name",), "SizeParam": ("name",), "DataWrapper": (),
    "IndexLambda": ("expr",), "Stack": ("axis",), "Concatenate": ("axis",),
    "Roll": ("shift", "axis"), "AxisPermutation": ("axis_permutation",),
    "Reshape": ("newshape", "order"), "BasicIndex": ("indices",),
    "AdvancedIndexInContiguousAxes": ("indices",),
    "AdvancedIndexInNoncontiguousAxes": ("indices",),
    "Einsum": (), "CSRMatmul": (),
    "DistributedRecv": ("src_rank", "comm_tag"),
    "DistributedSendRefHolder": ("dest_rank", "comm_tag"),
    "NamedArray": ("name",), "LoopyCallResult": ("name",),
    "NamedCallResult": ("name",), "Call": (), "LoopyCall": ("entrypoint",),
    "DictOfNamedArrays": (),
}
#: types whose label need not show shape / dtype / tags
BARE = ("NamedCallResult", "Call", "LoopyCall", "DictOfNamedArrays")


def _indices_text(o: Any) -> str:
    import pytato as pt
    parts = []
    for i, ix in enumerate(o.indices):
        if isinstance(ix, pt.Array):
            parts.append(f"i{i}")
        elif ix is None:
            parts.append("newaxis")
        else:
            parts.append(str(ix))
    return ", ".join(parts)


def node_label(o: Any) -> tuple[str, dict[str, str], dict[str, str]]:
    """-> (title, must, may): field name -> shown text"""
    import pytato as pt
    title = type(o).__name__
    if title not in PARAMS:
        for klass in type(o).__mro__[1:]:
            if klass.__name__ in PARAMS:
                params = PARAMS[klass.__name__]
                break
        else:
            raise Unsupported(f"no label convention for {title}")
    else:
        params = PARAMS[title]
    must: dict[str, str] = {}
    may: dict[str, str] = {}
    if isinstance(o, pt.Array):
        common = {"shape": show_tuple(o.shape), "dtype": str(o.dtype), "tags": show_tags(o.tags)}
        (may if title in BARE else must).update(common)
    elif hasattr(o, "tags"):
        may["tags"] = show_tags(o.tags)
    vals: dict[str, str] = {}
    for f in dataclasses.fields(o):
        if f.name in ("shape", "dtype", "tags", "non_equality_tags"):
            continue
        v = getattr(o, f.name)
        if f.name == "indices":
            vals["indices"] = _indices_text(o)
        elif f.name == "expr":
            vals["expr"] = str(v)
        elif mh.is_node(v) or mh.is_function(v) or f.name in ("send", "matrix", "bindings",
                                                             "_data", "data", "translation_unit"):
            continue
        elif isinstance(v, tuple):
            if any(mh.is_node(e) for e in v):
                continue
            vals[f.name] = show_tuple(v)
        else:
            vals[f.name] = str(v)
    if title == "DistributedSendRefHolder":
        vals["dest_rank"] = str(o.send.dest_rank)
        vals["comm_tag"] = str(o.send.comm_tag)
    if title == "CSRMatmul":
        vals["matrix_shape"] = show_tuple(o.matrix.shape)
    if title == "DataWrapper" and getattr(o, "name", None) is not None:
        vals["name"] = str(o.name)
    for k, v in vals.items():
        (must if k in params else may)[k] = v
    for k in params:
        if k not in must:
            raise Unsupported(f"{title} has no field {k}")
    return title, must, may


_PATH_KEY = re.compile(r"\[(.*)\]$")


def edge_label(o: Any, kind: str, path: str) -> str:
    """the label the drawing convention gives the edge for the child found at
    dataclass field path *path* of *o*"""
    title = type(o).__name__
    head = path.split("[")[0].split(".")[0]
    m = _PATH_KEY.search(path)
    key = m.group(1) if m else None
    if kind in MAY_KINDS:
        return path
    if head in ("bindings", "_data"):
        assert key is not None
        return str(eval(key))          # noqa: S307  (repr of a str key written by mapperharness)
    if head == "arrays":
        return str(int(key))           # type: ignore[arg-type]
    if head == "args":
        i = int(key)                   # type: ignore[arg-type]
        return f"{i}: {o.access_descriptors[i]}"
    if head == "indices":
        return f"i{int(key)}"          # type: ignore[arg-type]
    if head == "matrix":
        return path
    if head == "send":
        return "sent"
    if head == "passthrough_data":
        return "passthrough"
    if head == "_container":
        return "" if title == "NamedCallResult" else "_container"
    if head == "array":
        return "array"
    raise Unsupported(f"no edge label convention for {title}.{path}")


# --------------------------------------------------------------------------
# the source record

def function_label(f: Any) -> str:
    from pytato.tags import FunctionIdentifier
    ts = [t for t in f.tags if isinstance(t, FunctionIdentifier)]
    return str(ts[0].identifier) if ts else ""


def out_name(s: str) -> str:
    return norm_cluster_label(disp(s))


def norm_cluster_label(s: str) -> str:
    """generated labels of unnamed functions (func, func_0, ...) are one label"""
    return "func" if re.fullmatch(r"func(_[0-9]+)?", s) or s == "" else s


class _SourceBuilder:
    def __init__(self) -> None:
        self.interner = mh.Interner()
        self.nodes: list[dict] = []
        self.funcs: list[dict] = []
        self.fn_index: dict[int, int] = {}            # function class -> index (1-based)
        self.pos: dict[tuple[int, int], int] = {}     # (ns, class) -> node position (1-based)
        self.addr: dict[int, tuple[int, int]] = {}    # id(obj) -> (ns, class)
        self._pending: list[tuple[int, Any]] = []
        self._fn_seen: set[int] = set()

    def add_graph(self, ns: int, roots: list[Any]) -> list[int]:
        """number everything below *roots* in name space *ns*; -> positions of
        the roots.  Children first (the order of reflect)."""
        try:
            g = mh.reflect(roots, self.interner)
        except ReflectError as ex:
            raise Unsupported(str(ex)) from ex
        for i, o in enumerate(g.objs):
            c = g.cls[i]
            self.addr[id(o)] = (ns, c)
            if (ns, c) in self.pos:
                self.nodes[self.pos[ns, c] - 1]["oids"].append(id(o))
                continue
            title, must, may = node_label(o)
            kids = []
            for kd, path, ch in mh.direct_children(o):
                if mh.is_function(ch):
                    continue
                kids.append({"to": self.pos[ns, self.interner.cls(ch)],
                             "lab": disp(edge_label(o, kd, path)), "ek": kd})
            import pytato as pt
            from pytato.array import InputArgumentBase
            kind = ("ph" if isinstance(o, pt.Placeholder) else
                    "in" if isinstance(o, InputArgumentBase) else
                    "call" if title == "Call" else "op")
            nd = {"ns": ns, "kind": kind, "title": title,
                  "must": {"_": "", **{k: norm_value(k, disp(v)) for k, v in must.items()}},
                  "may": {"_": "", **{k: norm_value(k, disp(v)) for k, v in may.items()}},
                  "name": out_name(str(getattr(o, "name", "") or ""))
                  if kind in ("ph", "in") else "",
                  "fn": 0, "kids": kids, "oids": [id(o)]}
            if kind == "call":
                nd["fn"] = self.function(o.function)
            self.nodes.append(nd)
            self.pos[ns, c] = len(self.nodes)
        return [self.pos[ns, g.cls[r - 1]] for r in g.roots]

    def function(self, f: Any) -> int:
        c = self.interner.cls(f)
        if c in self.fn_index:
            if id(f) not in self._fn_seen:
                self._fn_seen.add(id(f))
                self._pending.append((self.fn_index[c], f))
            return self.fn_index[c]
        self._fn_seen.add(id(f))
        self.funcs.append({})
        k = len(self.funcs)
        self.fn_index[c] = k
        self._pending.append((k, f))
        return k

    def finish_functions(self) -> None:
        while self._pending:
            k, f = self._pending.pop(0)
            names = list(f.returns)
            ps = self.add_graph(k, [f.returns[n] for n in names])
            if self.funcs[k - 1]:
                continue            # an equal definition met before: only its addresses
            self.funcs[k - 1] = {"label": norm_cluster_label(disp(function_label(f))),
                                 "named": bool(function_label(f)),
                                 "rets": [{"name": out_name(n), "node": p}
                                          for n, p in zip(names, ps)]}


def _reorder(S: dict) -> dict:
    """Order the nodes so that the PICTURE is topologically ordered by node
    position: children first, and the producer of a part output before the
    placeholder that names it."""
    n = len(S["nodes"])
    outnode = {o["name"]: o["node"] for o in S["outputs"]}
    deps: list[set[int]] = [set(e["to"] for e in nd["kids"]) for nd in S["nodes"]]
    users = {u for p in S["parts"] for u in p["user"]}
    for k, nd in enumerate(S["nodes"]):
        if nd["ns"] == 0 and nd["kind"] == "ph" and nd["name"] in outnode \
                and nd["name"] not in users:
            deps[k].add(outnode[nd["name"]])
    order: list[int] = []
    state = [0] * n
    for root in range(n):
        if state[root]:
            continue
        st = [(root, iter(sorted(deps[root])))]
        state[root] = 1
        while st:
            k, it = st[-1]
            for d in it:
                if state[d - 1] == 1:
                    raise Unsupported("the partition is cyclic")
                if state[d - 1] == 0:
                    state[d - 1] = 1
                    st.append((d - 1, iter(sorted(deps[d - 1]))))
                    break
            else:
                state[k] = 2
                order.append(k)
                st.pop()
    new = {old + 1: i + 1 for i, old in enumerate(order)}
    nodes = []
    for old in order:
        nd = dict(S["nodes"][old])
        nd["kids"] = [dict(e, to=new[e["to"]]) for e in nd["kids"]]
        nodes.append(nd)
    S = dict(S, nodes=nodes)
    S["outputs"] = [dict(o, node=new[o["node"]]) for o in S["outputs"]]
    S["funcs"] = [dict(f, rets=[dict(r, node=new[r["node"]]) for r in f["rets"]])
                  for f in S["funcs"]]
    S["parts"] = [dict(p, sends=[dict(s, data=new[s["data"]]) for s in p["sends"]])
                  for p in S["parts"]]
    return S


def source_of_outputs(outs: dict[str, Any]) -> dict:
    """S of get_dot_graph(outs): the trivial partition"""
    import pytato as pt
    b = _SourceBuilder()
    names = list(outs)
    ps = b.add_graph(0, [outs[n] for n in names])
    b.finish_functions()
    user = sorted({nd["name"] for nd in b.nodes if nd["ns"] == 0 and nd["kind"] == "ph"})
    # (the name field of an input is compared with output names: same spelling)
    del pt
    S = {"nodes": b.nodes, "funcs": b.funcs,
         "parts": [{"pid": "None", "label": "None", "trivial": True,
                    "outs": [out_name(n) for n in names],
                    "user": user, "recvs": [], "sends": []}],
         "outputs": [{"name": out_name(n), "node": p} for n, p in zip(names, ps)],
         "overall": [out_name(n) for n in names]}
    return _finish(S, b)


def source_of_partition(part: Any) -> dict:
    b = _SourceBuilder()
    names = list(part.name_to_output)
    extra = []
    for p in part.parts.values():
        for sends in p.name_to_send_nodes.values():
            extra += [s.data for s in sends]
    ps = b.add_graph(0, [part.name_to_output[n] for n in names] + extra)
    sendpos = dict(zip(map(id, extra), ps[len(names):]))
    b.finish_functions()
    parts = []
    trivial = len(part.parts) == 1 and next(iter(part.parts)) is None
    for pid, p in part.parts.items():
        recvs = [{"name": out_name(nm),
                  "must": {"_": "", "shape": norm_value("shape", disp(show_tuple(rv.shape))),
                           "dtype": disp(str(rv.dtype)), "src_rank": disp(str(rv.src_rank)),
                           "comm_tag": disp(str(rv.comm_tag))}}
                 for nm, rv in p.name_to_recv_node.items()]
        sends = [{"name": out_name(nm), "data": sendpos[id(s.data)],
                  "must": {"_": "", "dest_rank": disp(str(s.dest_rank)),
                           "comm_tag": disp(str(s.comm_tag))}}
                 for nm, ss in p.name_to_send_nodes.items() for s in ss]
        parts.append({"pid": str(pid), "label": norm_cluster_label(disp(str(pid))),
                      "trivial": trivial,
                      "outs": sorted(out_name(n) for n in p.output_names),
                      "user": sorted(out_name(n) for n in p.user_input_names),
                      "recvs": recvs, "sends": sends})
    S = {"nodes": b.nodes, "funcs": b.funcs, "parts": parts,
         "outputs": [{"name": out_name(n), "node": p} for n, p in zip(names, ps)],
         "overall": [out_name(n) for n in part.overall_output_names]}
    return _finish(S, b)


def _finish(S: dict, b: _SourceBuilder) -> dict:
    S = _reorder(S)
    S["_addr"] = {}
    S["_dups"] = any(len(nd["oids"]) > 1 for nd in S["nodes"])
    for k, nd in enumerate(S["nodes"], start=1):
        for a in nd["oids"]:
            S["_addr"][a] = k
    for nd in S["nodes"]:
        nd["oids"] = []          # addresses do not travel; identity goes through dot.oid
    return S


# --------------------------------------------------------------------------
# the rendering record

def rendering(text: str, addr_to_node: dict[int, int] | None = None) -> dict:
    """-> {"error": clause or "", "what": text, "nodes": [...]} with nodes in
    topological order where one exists (else in text order: the judges see a
    child at a later position and answer "cyclic")."""
    try:
        g = vizdot.parse(text)
    except vizdot.DotSyntaxError as ex:
        return {"error": "dot_syntax", "what": str(ex)[:300], "nodes": []}
    labels: dict[tuple[str, ...], str] = {}
    for path, attrs in g.subgraphs.items():
        if not path:
            continue
        lab = attrs.get("label")
        labels[path] = norm_cluster_label(disp(vizdot.plain_text(*lab))) if lab else path[-1]
    ids = list(g.nodes)
    raw: dict[str, dict] = {}
    home_of, multi = vizdot.homes(g)
    for nid, nd in g.nodes.items():
        home = home_of[nid]
        cl = [labels[home[:k]] for k in range(1, len(home) + 1)
              if home[:k][-1].startswith("cluster")]
        lab = nd.attrs.get("label")
        oid = 0
        if lab is not None and lab[0] == "html":
            try:
                title, fields = vizdot.html_label(lab[1])
            except vizdot.LabelError as ex:
                return {"error": "label_malformed", "what": f"node {nid}: {ex}"[:300],
                        "nodes": []}
            fd: dict[str, str] = {"_": ""}
            for k, v in fields:
                if k in fd:
                    return {"error": "label_malformed",
                            "what": f"node {nid}: field {k} shown twice", "nodes": []}
                fd[k] = norm_value(k, v)
            plain = False
            if "addr" in fd and addr_to_node is not None:
                try:
                    oid = addr_to_node.get(int(fd["addr"], 16), -1)
                except ValueError:
                    oid = -1
        else:
            title = norm_cluster_label(disp(vizdot.plain_text(*lab))) if lab is not None \
                else nid
            fd = {"_": ""}
            plain = True
        raw[nid] = {"id": nid, "cl": cl, "title": title, "fields": fd, "plain": plain,
                    "oid": oid, "nstmt": nd.nstmt, "kids": []}
    for e in g.edges:
        lab = e.attrs.get("label")
        st = e.attrs.get("style")
        raw[e.dst]["kids"].append({"src": e.src,
                                   "lab": vizdot.plain_text(*lab) if lab else "",
                                   "style": st[1] if st else ""})
    # topological order (Kahn); a cycle leaves the remaining nodes in text order
    indeg = {i: len({k["src"] for k in raw[i]["kids"]}) for i in ids}
    users: dict[str, list[str]] = {i: [] for i in ids}
    for i in ids:
        for s in {k["src"] for k in raw[i]["kids"]}:
            users[s].append(i)
    ready = [i for i in ids if indeg[i] == 0]
    order: list[str] = []
    while ready:
        i = ready.pop(0)
        order.append(i)
        for u in users[i]:
            indeg[u] -= 1
            if indeg[u] == 0:
                ready.append(u)
    order += [i for i in ids if i not in set(order)]
    pos = {nid: k + 1 for k, nid in enumerate(order)}
    nodes = []
    for nid in order:
        nd = raw[nid]
        nd["kids"] = [{"to": pos[k["src"]], "lab": k["lab"], "style": k["style"]}
                      for k in nd["kids"]]
        nodes.append(nd)
    return {"error": "", "what": "", "nodes": nodes, "multi_cluster_nodes": multi,
            "cluster_names_reused": sorted("/".join(p) for p, c in g.opened.items() if c > 1),
            "cluster_basenames_reused": sorted(
                {p[-1] for p in g.subgraphs if p and
                 sum(1 for q in g.subgraphs if q and q[-1] == p[-1]) > 1})}


# --------------------------------------------------------------------------
# the picture the specification expects (hand computation of PtDot!Picture)

def _grow(S: dict, mode: tuple, start: set[int]) -> set[int]:
    seen, st = set(), list(start)
    while st:
        k = st.pop()
        if k in seen:
            continue
        seen.add(k)
        for e in S["nodes"][k - 1]["kids"]:
            if e["ek"] not in MAY_KINDS or e["ek"] in mode:
                st.append(e["to"])
    return seen


def picture(S: dict, mode: tuple = ()) -> list[dict]:
    """items in an order in which every kid comes first; every item:
    {"key", "cl", "title", "must", "may", "plain", "node" (S position or 0),
     "ph" (shared placeholder), "kids": [{"to" (1-based item position), "lab",
     "style", "anyinst"}]}"""
    nodes = S["nodes"]
    outnode = {o["name"]: o["node"] for o in S["outputs"]}
    NP = len(S["parts"])
    reach0 = []
    for p in S["parts"]:
        missing = [n for n in p["outs"] if n not in outnode]
        if missing:
            raise Unsupported(f"part output {missing[0]} is not in name_to_output")
        reach0.append(_grow(S, mode, {outnode[n] for n in p["outs"]}))
    body = [_grow(S, mode, {r["node"] for r in f["rets"]}) for f in S["funcs"]]
    pfuncs = []
    for p in range(NP):
        F: set[int] = set()
        frontier = {nodes[k - 1]["fn"] for k in reach0[p] if nodes[k - 1]["kind"] == "call"}
        while frontier:
            f = frontier.pop()
            if f in F:
                continue
            F.add(f)
            frontier |= {nodes[k - 1]["fn"] for k in body[f - 1] if nodes[k - 1]["kind"] == "call"}
        pfuncs.append(sorted(F))
    items: list[dict] = []
    index: dict[tuple, int] = {}

    def add(key: tuple, **kw: Any) -> int:
        items.append({"key": key, "kids": [], "may": {"_": ""}, "plain": False, "node": 0,
                      "ph": False, **kw})
        index[key] = len(items)
        return len(items)

    def pcl(p: int) -> list[str]:
        part = S["parts"][p]
        return [] if part["trivial"] else [part["label"]]

    recv_of: dict[str, tuple] = {}
    for p, part in enumerate(S["parts"]):
        for r in part["recvs"]:
            add(("recv", p, r["name"]), cl=pcl(p), title="DistributedRecv", must=r["must"])
            recv_of.setdefault(r["name"], ("recv", p, r["name"]))
    for p in range(NP):
        for f in pfuncs[p]:
            fl = S["funcs"][f - 1]["label"]
            add(("fe", p, f), cl=[*pcl(p), fl], title=fl, must={"_": ""}, plain=True)
    producer: dict[str, int] = {}
    users = {u for part in S["parts"] for u in part["user"]}
    for p, part in enumerate(S["parts"]):
        for n in part["outs"]:
            producer.setdefault(n, p)

    def inst(p: int, k: int) -> tuple:
        nd = nodes[k - 1]
        if nd["ns"] == 0 and nd["kind"] == "ph":
            return ("ph", k)
        return ("n", p, k)

    for k, nd in enumerate(nodes, start=1):
        if nd["ns"] == 0 and nd["kind"] == "ph":
            if not any(k in r for r in reach0):
                continue
            it = add(("ph", k), cl=["*"], title=nd["title"], must=nd["must"], may=nd["may"],
                     node=k, ph=True)
            nm = nd["name"]
            if nm in recv_of:
                items[it - 1]["kids"].append({"to": index[recv_of[nm]], "lab": "",
                                              "style": "dotted", "anyinst": False})
            elif nm in users:
                pass            # a user input: no arrow
            elif nm in producer:
                q = producer[nm]
                items[it - 1]["kids"].append({"to": index[inst(q, outnode[nm])], "lab": "",
                                              "style": "dashed", "anyinst": False})
            continue
        if nd["ns"] == 0:
            where = [(p, pcl(p)) for p in range(NP) if k in reach0[p]]
        else:
            f = nd["ns"]
            fl = S["funcs"][f - 1]["label"]
            where = [(p, [*pcl(p), fl] + (["Arguments"] if nd["kind"] in ("ph", "in") else []))
                     for p in range(NP) if f in pfuncs[p] and k in body[f - 1]]
        for p, cl in where:
            it = add(("n", p, k), cl=cl, title=nd["title"], must=nd["must"], may=nd["may"],
                     node=k)
            for e in nd["kids"]:
                if e["ek"] in MAY_KINDS and e["ek"] not in mode:
                    continue
                items[it - 1]["kids"].append({"to": index[inst(p, e["to"])], "lab": e["lab"],
                                              "style": "", "anyinst": False})
            if nd["kind"] == "call":
                items[it - 1]["kids"].append({"to": index["fe", p, nd["fn"]], "lab": "",
                                              "style": "", "anyinst": False})
    for p, part in enumerate(S["parts"]):
        for i, s in enumerate(part["sends"]):
            if s["data"] not in reach0[p]:
                raise Unsupported("sent data is not computed by the part that sends it")
            it = add(("send", p, i), cl=pcl(p), title="DistributedSend", must=s["must"])
            items[it - 1]["kids"].append({"to": index[inst(p, s["data"])], "lab": s["name"],
                                          "style": "dotted", "anyinst": False})
    for p in range(NP):
        for f in pfuncs[p]:
            fl = S["funcs"][f - 1]["label"]
            for r in S["funcs"][f - 1]["rets"]:
                it = add(("ret", p, f, r["name"]), cl=[*pcl(p), fl, "Returns"], title=r["name"],
                         must={"_": ""}, plain=True)
                items[it - 1]["kids"].append({"to": index["n", p, r["node"]], "lab": "",
                                              "style": "", "anyinst": False})
    for p, part in enumerate(S["parts"]):
        for n in part["outs"]:
            it = add(("po", p, n), cl=[*pcl(p), "Part_outputs"], title=n, must={"_": ""},
                     plain=True)
            items[it - 1]["kids"].append({"to": index[inst(p, outnode[n])], "lab": "",
                                          "style": "", "anyinst": False})
    for n in S["overall"]:
        if n not in outnode:
            raise Unsupported(f"overall output {n} is not in name_to_output")
        k = outnode[n]
        holders = [p for p in range(NP) if k in reach0[p]]
        if not holders:
            raise Unsupported(f"overall output {n} is computed by no part")
        it = add(("oo", n), cl=["Overall_outputs"], title=n, must={"_": ""}, plain=True)
        items[it - 1]["kids"].append({"to": index[inst(holders[0], k)], "lab": "", "style": "",
                                      "anyinst": True})
    return items


# --------------------------------------------------------------------------
# the verdict (hand computation of PtDotCheck!Clause)

def _rcl(nd: dict) -> tuple:
    cl = tuple(nd["cl"])
    if nd["title"] == "Placeholder" and not nd["plain"] and (not cl or cl[-1] != "Arguments"):
        return ("*",)
    return cl


def _bag(xs: Any) -> dict:
    out: dict = {}
    for x in xs:
        out[x] = out.get(x, 0) + 1
    return out


def _classes(entries: list[dict], with_cluster: bool, with_oid: bool) -> list[int]:
    """entries: combined sequence (picture items, then rendered nodes), every
    entry {"lab": hashable, "cl": tuple, "oid": int, "kids": [(lab, style, to,
    anyinst)]}; class = smallest position with the same label and the same bag
    of (edge label, style, class of the kid)."""
    table: dict = {}
    cls: list[int] = []
    free: list[int] = []          # classes with the cluster erased
    t0: dict = {}
    for k, e in enumerate(entries, start=1):
        kb0 = tuple(sorted(_bag((lab, st, free[to - 1]) for lab, st, to, _ in e["kids"]).items()))
        s0 = (e["lab"], e["oid"] if with_oid else 0, kb0)
        free.append(t0.setdefault(s0, k))
        kb = tuple(sorted(_bag((lab, st, (free if anyi or not with_cluster else cls)[to - 1])
                               for lab, st, to, anyi in e["kids"]).items()))
        s = (e["lab"], e["cl"] if with_cluster else (), e["oid"] if with_oid else 0, kb)
        cls.append(table.setdefault(s, k))
    return cls


def clause_for_mode(S: dict, R: dict, mode: tuple) -> tuple[str, str]:
    return clause_for_items(picture(S, mode), R)


def clause_for_items(items: list[dict], R: dict) -> tuple[str, str]:
    rn = R["nodes"]
    for k, nd in enumerate(rn, start=1):
        if any(e["to"] >= k for e in nd["kids"]):
            return "cyclic", f"rendered node {nd['id']} depends on itself"
    shown: dict[str, set] = {}
    for nd in rn:
        shown.setdefault(nd["title"], set()).update(nd["fields"])

    def plab(it: dict) -> tuple:
        keys = (set(it["must"]) | (shown.get(it["title"], set()) & set(it["may"]))) - set(ANY_KEYS)
        both = {**it["may"], **it["must"]}
        return (it["title"], it["plain"], tuple(sorted((k, both[k]) for k in keys)))

    def rlab(nd: dict) -> tuple:
        return (nd["title"], nd["plain"],
                tuple(sorted((k, v) for k, v in nd["fields"].items() if k not in ANY_KEYS)))

    # level 0: how many nodes of each title
    pt_, rt = _bag(it["title"] for it in items), _bag(nd["title"] for nd in rn)
    for t in sorted(set(pt_) | set(rt)):
        if rt.get(t, 0) < pt_.get(t, 0):
            return "node_missing", f"{pt_[t]} node(s) titled {t!r} expected, {rt.get(t, 0)} drawn"
    for t in sorted(set(pt_) | set(rt)):
        if rt.get(t, 0) > pt_.get(t, 0):
            return "node_extra", f"{pt_.get(t, 0)} node(s) titled {t!r} expected, {rt[t]} drawn"
    # level 1: ... in each cluster
    pc = _bag((tuple(it["cl"]), it["title"]) for it in items)
    rc = _bag((_rcl(nd), nd["title"]) for nd in rn)
    if pc != rc:
        d = sorted(set(pc.items()) ^ set(rc.items()), key=repr)[:2]
        return "cluster", f"nodes per (cluster, title) differ: {d}"
    # level 2: ... with each label
    pl_ = _bag((tuple(it["cl"]), plab(it)) for it in items)
    rl = _bag((_rcl(nd), rlab(nd)) for nd in rn)
    if pl_ != rl:
        d = sorted(set(pl_.items()) ^ set(rl.items()), key=repr)[:2]
        return "label", f"labels differ: {d}"
    # level 3: edges between labels
    pe = _bag((tuple(items[e["to"] - 1]["cl"]) if not e["anyinst"] else ("?",),
               plab(items[e["to"] - 1]), tuple(it["cl"]), plab(it), e["lab"], e["style"])
              for it in items for e in it["kids"])
    re_ = _bag((_rcl(rn[e["to"] - 1]) if nd["cl"] != ["Overall_outputs"] else ("?",),
                rlab(rn[e["to"] - 1]), _rcl(nd), rlab(nd), e["lab"], e["style"])
               for nd in rn for e in nd["kids"])
    if pe != re_:
        ends_p = _bag(k[:4] for k, c in pe.items() for _ in range(c))
        ends_r = _bag(k[:4] for k, c in re_.items() for _ in range(c))
        if ends_p == ends_r:
            d = sorted(set(pe) ^ set(re_), key=repr)[:2]
            return "edge_label", f"edge labels / styles differ: {[x[4:] for x in d]}"
        for k in sorted(pe, key=repr):
            if re_.get(k, 0) < pe[k]:
                return "edge_missing", (f"edge {k[1][0]} -> {k[3][0]} labelled {k[4]!r} "
                                        f"expected {pe[k]} time(s), drawn {re_.get(k, 0)}")
        for k in sorted(re_, key=repr):
            if re_[k] > pe.get(k, 0) > 0:
                return "edge_duplicated", (f"edge {k[1][0]} -> {k[3][0]} labelled {k[4]!r} "
                                           f"expected {pe[k]} time(s), drawn {re_[k]}")
        k = next(k for k in sorted(re_, key=repr) if re_[k] > pe.get(k, 0))
        return "edge_extra", f"edge {k[1][0]} -> {k[3][0]} labelled {k[4]!r} is not expected"
    # level 4: structure (classes of the combined sequence)
    n = len(items)
    entries = [{"lab": plab(it), "cl": tuple(it["cl"]), "oid": it["node"] if not it["plain"] else 0,
                "kids": [(e["lab"], e["style"], e["to"], e["anyinst"]) for e in it["kids"]]}
               for it in items]
    entries += [{"lab": rlab(nd), "cl": _rcl(nd), "oid": nd["oid"],
                 "kids": [(e["lab"], e["style"], e["to"] + n, nd["cl"] == ["Overall_outputs"])
                          for e in nd["kids"]]} for nd in rn]
    cls = _classes(entries, True, False)
    if _bag(cls[:n]) != _bag(cls[n:]):
        return "structure", "edges connect other nodes than expected"
    # level 5: identity (the addr field names the node)
    if any(nd["oid"] for nd in rn):
        ents2 = [dict(e) for e in entries]
        for e, nd in zip(ents2[n:], rn):
            if nd["oid"] == 0:           # no addr shown: not judged
                e["oid"] = 0
        # picture items whose rendered counterparts show no addr: erase too
        titles_with_addr = {nd["title"] for nd in rn if nd["oid"]}
        for e, it in zip(ents2[:n], items):
            if it["title"] not in titles_with_addr or it["plain"]:
                e["oid"] = 0
        cls2 = _classes(ents2, True, True)
        if _bag(cls2[:n]) != _bag(cls2[n:]):
            return "identity", "an addr field names another node than the one drawn"
    # level 6: one statement per node
    for nd in rn:
        if nd["nstmt"] > 1 and not (nd["title"] == "Placeholder" and not nd["plain"]):
            return "node_declared_twice", f"node {nd['id']} has {nd['nstmt']} node statements"
        if nd["nstmt"] == 0:
            return "node_undeclared", f"node {nd['id']} is only mentioned in edges"
    return "ok", ""


def judge(rec: dict) -> tuple[str, str]:
    R = rec["dot"]
    if R["error"]:
        return R["error"], R["what"]
    first: tuple[str, str] | None = None
    for mode in MODES:
        try:
            v = clause_for_mode(rec["src"], R, mode)
        except Unsupported as ex:
            return "unsupported_source", str(ex)
        if v[0] == "ok":
            return v
        if first is None:
            first = v
    assert first is not None
    return first


def judge_fancy(rec: dict) -> tuple[str, str]:
    from . import vizrepr
    R = rec["dot"]
    if R["error"]:
        return R["error"], R["what"]
    R = dict(R, nodes=[dict(nd, kids=[{"to": t, "lab": "", "style": ""}
                                      for t in sorted({e["to"] for e in nd["kids"]})])
                       for nd in R["nodes"]])
    return clause_for_items(vizrepr.fancy_picture(rec["src"]), R)
