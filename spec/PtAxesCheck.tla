---------------------------- MODULE PtAxesCheck ----------------------------
(***************************************************************************)
(* Validation module (use E): every record was exported from one real run  *)
(*      b = unify_axes_tags(a, tag_t=..., unify_redn_descrs=rec.redn)      *)
(* and optionally c = unify_axes_tags(b, ...).  TLC derives the axis       *)
(* equations of graph a from its nodes' parameters (PtAxes part 2),        *)
(* computes the two bounds (part 1) and prints one verdict per record:     *)
(*     <<"V", id, "ok">>  or  <<"V", id, "<first failing clause>">>        *)
(*                                                                         *)
(* rec.a, rec.b [, rec.c]  graphs; rec.map[p] = position in b of node p of *)
(* a [, rec.map2: b -> c]; rec.prop = names of the tags that are instances *)
(* of tag_t; rec.ign = names of the tags that are instances of             *)
(* AxisIgnoredForPropagationTag; rec.redn = unify_redn_descrs.             *)
(* Node fields used here besides those of PtAxes: sig (digest of every     *)
(* field that is neither a child reference nor an axis / reduction-        *)
(* descriptor tag: kind, parameters, shape, dtype, array tags), kids       *)
(* (child positions in field order, with multiplicity).                    *)
(*                                                                         *)
(* Clauses, in order:                                                      *)
(*   structure       (c) b is a with other axis / reduction tags only      *)
(*   spec_shape      the rules misread a node (machinery error, not a      *)
(*                   verdict on the implementation)                        *)
(*   tag_removed     (e) every tag of a is still there                     *)
(*   redn_touched    (f) unify_redn_descrs=False leaves descriptors alone  *)
(*   foreign_tag     (b) an added tag is a propagating tag (type tag_t,    *)
(*                   never the ignore tag itself)                          *)
(*   missing         (a) closure(MUST) <= result                           *)
(*   extra*          (a) result <= closure(MUST + MAY); the suffix names   *)
(*                   the modelled deviation that explains ALL extras       *)
(*   structure2 / not_idempotent   (d) c = b                               *)
(* A record with field "raised" (instead of b, map) says that the run      *)
(* ended with pytools' NonUniqueTagError; rec.groups lists the pairs of    *)
(* tag names that may not share an axis.  Documented: unify_axes_tags      *)
(* "by itself does not raise if an axis is tagged with multiple tags of    *)
(* type tag_t" unless they are UniqueTags -- so the error is allowed iff   *)
(* some axis may receive two such tags (upper bound), clause               *)
(* unexpected_unique_error otherwise.  (Conversely, a result that lacks a  *)
(* conflicting tag the lower bound demands fails clause "missing".)        *)
(***************************************************************************)
EXTENDS PtAxes, Json, IOUtils

Batch == JsonDeserialize(IOEnv.BATCH_FILE)

VARIABLE r
Init == r \in 1..Len(Batch)
Next == UNCHANGED r

AxVarsOf(g) == UNION {{AV(p, i) : i \in Axes(g, p)} : p \in DOMAIN g.nodes}
RdVarsOf(g) == UNION {{RV(p, j - 1) : j \in DOMAIN g.nodes[p].rdn} : p \in DOMAIN g.nodes}

\* tags of variable v of graph a, read in graph g at the corresponding node
TagsAt(g, m, v) ==
  LET n == g.nodes[m[NodeOf(v)]] k == v % 64
  IN IF k < 32 THEN Range(n.ax[k + 1]) ELSE Range(n.rdn[k - 32 + 1])

Ident(g) == [p \in DOMAIN g.nodes |-> p]

\* graph h is graph g up to axis / reduction-descriptor tags, along m
SameStructure(g, h, m) ==
  /\ Len(m) = Len(g.nodes)
  /\ \A p \in DOMAIN g.nodes :
       /\ m[p] \in DOMAIN h.nodes
       /\ g.nodes[p].sig = h.nodes[m[p]].sig
       /\ Len(g.nodes[p].ax) = Len(h.nodes[m[p]].ax)
       /\ Len(g.nodes[p].rdn) = Len(h.nodes[m[p]].rdn)
       /\ Len(g.nodes[p].kids) = Len(h.nodes[m[p]].kids)
       /\ \A q \in DOMAIN g.nodes[p].kids : m[g.nodes[p].kids[q]] = h.nodes[m[p]].kids[q]
  /\ Len(g.outs) = Len(h.outs)
  /\ \A q \in DOMAIN g.outs : /\ g.outs[q].name = h.outs[q].name
                              /\ m[g.outs[q].node] = h.outs[q].node
  \* nothing in h but images of g
  /\ \A p2 \in DOMAIN h.nodes : \E p \in DOMAIN g.nodes : m[p] = p2

\* selftest only: AXES_DROP_RULE=<kind> removes that kind's MUST rule from the
\* specification (a correct record must then be REJECTED: the rule is load-bearing)
Dropped == IF "AXES_DROP_RULE" \in DOMAIN IOEnv THEN IOEnv.AXES_DROP_RULE ELSE ""
MustEqsD(g) == UNION {IF g.nodes[p].kind = Dropped THEN {} ELSE MustN(g, p) : p \in DOMAIN g.nodes}

ShapesReadable(g) ==
  \A p \in DOMAIN g.nodes : g.nodes[p].kind = "index" => IndexShapeOK(g, p)

Clause(rec) ==
  LET a == rec.a  b == rec.b  m == rec.map
      PT == Range(rec.prop) \ Range(rec.ign)
      IGN == Range(rec.ign)
      ax == AxVarsOf(a)
      rd == RdVarsOf(a)
      vs == ax \cup rd
      t0 == TLCEval([v \in vs |-> TagsAt(a, Ident(a), v)])
      tr == TLCEval([v \in vs |-> TagsAt(b, m, v)])
      ignAx == {v \in ax : t0[v] \cap IGN # {}}
      ignRd == {v \in rd : t0[v] \cap IGN # {}}
      srcAx == [v \in vs |-> IF v \in ax THEN t0[v] ELSE {}]
      must == MustEqsD(a)
      may == MayEqs(a)
      lower == Closure(vs, must, ignAx \cup ignRd, srcAx, PT)
      upper == Closure(vs, must \cup may, ignAx, t0, PT)
      judged == IF rec.redn THEN vs ELSE ax
      \* part 3: the modelled deviations (only to name the failing clause).
      \* F1: axes sharing a tag behave as if equated (br).  F2: an einsum's
      \* reduction descriptor ALSO receives what arrives at operand axes that
      \* are broadcast along its index (bc) -- the descriptor only, one hop.
      br == BridgeEqs(ax, srcAx, PT)
      bc == BcastRednEqs(a)
      upperBr == Closure(vs, must \cup may \cup br, ignAx, t0, PT)
      viaBc(up, v) == UNION {up[e[1]] : e \in {f \in bc : f[2] = v}}
      extras(up, f2) == \E v \in judged :
                          ~(tr[v] \subseteq t0[v] \cup up[v] \cup (IF f2 THEN viaBc(up, v) ELSE {}))
      conflict(up, f2) == \E v \in judged : \E q \in DOMAIN rec.groups :
                            Range(rec.groups[q]) \subseteq
                               t0[v] \cup up[v] \cup (IF f2 THEN viaBc(up, v) ELSE {})
  IN
  IF "raised" \in DOMAIN rec THEN
       (IF ~ShapesReadable(a) THEN "spec_shape"
        ELSE IF conflict(upper, FALSE) THEN "ok"
        ELSE IF conflict(upperBr, FALSE) THEN "unique_error_via_shared_tag"
        ELSE IF conflict(upper, TRUE) THEN "unique_error_einsum_bcast_redn"
        ELSE "unexpected_unique_error")
  ELSE IF ~SameStructure(a, b, m) THEN "structure"
  ELSE IF ~ShapesReadable(a) THEN "spec_shape"
  ELSE IF \E v \in vs : ~(t0[v] \subseteq tr[v]) THEN "tag_removed"
  ELSE IF ~rec.redn /\ \E v \in rd : tr[v] # t0[v] THEN "redn_touched"
  ELSE IF \E v \in vs : ~((tr[v] \ t0[v]) \subseteq PT) THEN "foreign_tag"
  ELSE IF \E v \in judged : ~(lower[v] \subseteq tr[v]) THEN "missing"
  ELSE IF extras(upper, FALSE) THEN
         (IF ~extras(upperBr, FALSE) THEN "extra_via_shared_tag"
          ELSE IF ~extras(upper, TRUE) THEN "extra_einsum_bcast_redn"
          ELSE IF ~extras(upperBr, TRUE) THEN "extra_via_shared_tag+einsum_bcast_redn"
          ELSE "extra")
  ELSE IF "c" \in DOMAIN rec THEN
         (IF ~SameStructure(b, rec.c, rec.map2) THEN "structure2"
          ELSE IF \E v \in vs :
                    TagsAt(rec.c, [p \in DOMAIN a.nodes |-> rec.map2[m[p]]], v) # tr[v]
               THEN "not_idempotent"
          ELSE "ok")
  ELSE "ok"

Verdict == PrintT(<<"V", Batch[r].id, Clause(Batch[r])>>)
=============================================================================
