CONSTANTS
  N = 3
  WithFn = TRUE
  TwoParts = TRUE
  Bug = "dup_edge_on_hit"
INIT Init
NEXT Next
INVARIANTS RefFaithful
CHECK_DEADLOCK FALSE
