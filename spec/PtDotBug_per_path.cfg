CONSTANTS
  N = 3
  WithFn = TRUE
  TwoParts = TRUE
  Bug = "per_path"
INIT Init
NEXT Next
INVARIANTS RefFaithful
CHECK_DEADLOCK FALSE
