------------------------------ MODULE DistTrace ------------------------------
(***************************************************************************)
(* Trace validation for the distributed executor (use E of DESIGN 2.1).    *)
(*                                                                         *)
(* Every record of the batch is an exported instance (as for DistExec)     *)
(* plus "events": what the REAL execute_distributed_partition did on all   *)
(* ranks in one run under the controlled scheduler of ptverif/fakempi.py,  *)
(* observed from outside (MPI calls through the fake communicator, part    *)
(* executions through the program callables, every read / write / delete   *)
(* of the context through a dict subclass).  One event per blocking-call   *)
(* to blocking-call step of one rank, in the order the scheduler ran them; *)
(* each event names its rank and arguments (part id / completed receive    *)
(* indices), so validation is linear: event l must be THE DistExec action  *)
(* with these arguments, enabled in the current state, and the successor   *)
(* state must show exactly the logged local state (pc, context with value  *)
(* ids, executed parts, completed receive names, pending requests), the    *)
(* logged messages in flight and the logged inputs / deletions / returned  *)
(* outputs.  Verdict lines: <<"V", id, "ok">> or <<"V", id, "rejected",    *)
(* position, event, reason>>.                                              *)
(***************************************************************************)
EXTENDS DistExec

VARIABLE l
tvars == <<vars, l>>

Events == I.events
Ev == Events[l]
Has(rec, f) == f \in DOMAIN rec

LoggedCh(e, ch) ==
  LET hits == {k \in DOMAIN e.net : e.net[k][1] = ch[1] - 1 /\ e.net[k][2] = ch[2] - 1}
  IN IF hits = {} THEN <<>>
     ELSE LET x == e.net[CHOOSE k \in hits : TRUE][3]
          IN [j \in DOMAIN x |-> [tag |-> x[j][1], val |-> x[j][2]]]

SameNet(e) == Has(e, "net") =>
  /\ \A ch \in DOMAIN net' : net'[ch] = LoggedCh(e, ch)
  /\ \A k \in DOMAIN e.net : <<e.net[k][1] + 1, e.net[k][2] + 1>> \in DOMAIN net'

SameLocal(r, a) ==
  /\ pc'[r] = a.pc
  /\ a.pc \notin {"crashed", "spinning"} =>
       /\ DOMAIN ctx'[r] = DOMAIN a.ctx
       /\ \A nm \in DOMAIN a.ctx : ctx'[r][nm] = a.ctx[nm]
       /\ executed'[r] = {q + 1 : q \in Rng(a.executed)}
       /\ recvDone'[r] = Rng(a.rdone)
       /\ pending'[r] = [k \in DOMAIN a.pending |-> a.pending[k] + 1]

Returned(r, e) == Has(e, "ret") =>
  /\ pc'[r] = "done"
  /\ DOMAIN e.ret = Overall(r)
  /\ \A nm \in DOMAIN e.ret : e.ret[nm] = ctx'[r][nm]

Raised(r, e) == Has(e, "exc") <=> pc'[r] \in {"crashed", "spinning"}

Act(e) ==
  LET r == e.rank + 1 IN
  CASE e.ev = "post" -> PostRecvs(r)
    [] e.ev = "exec" -> ExecPart(r, e.pid + 1)
    [] e.ev = "waitsome" -> WaitSome(r, {q + 1 : q \in Rng(e.idx)})
    [] e.ev = "spin" -> Spin(r)
    [] e.ev = "drain" -> Drain(r)

Observed(e) ==
  LET r == e.rank + 1 IN
  CASE e.ev = "post" ->
         /\ Len(e.posted) = Len(Posted(r))
         /\ \A k \in DOMAIN e.posted :
              /\ e.posted[k][1] = Posted(r)[k].src
              /\ e.posted[k][2] = Posted(r)[k].tag
              /\ e.posted[k][3] = Posted(r)[k].shape
    [] e.ev = "exec" ->
         pc'[r] # "crashed" =>
           /\ DOMAIN e.ins = Ins(r, e.pid + 1)
           /\ \A nm \in DOMAIN e.ins : e.ins[nm] = ctx[r][nm]
           /\ DOMAIN e.outs = Outs(r, e.pid + 1)
           /\ Rng(e.dels) = released'[r] \ released[r]
           /\ Len(e.dels) = Cardinality(Rng(e.dels))
    [] e.ev = "waitsome" ->
         /\ DOMAIN e.vals = {NameOfQ(r, q + 1) : q \in Rng(e.idx)}
         /\ \A nm \in DOMAIN e.vals : ctx'[r][nm] = e.vals[nm]
         \* the buffer stored under a name is the buffer of that name's request
         /\ \A k \in DOMAIN e.bufs : NameOfQ(r, e.bufs[k][2] + 1) = e.bufs[k][1]
    [] e.ev \in {"spin", "drain"} -> TRUE

Match(e) == /\ SameLocal(e.rank + 1, e.after) /\ SameNet(e)
            /\ Returned(e.rank + 1, e) /\ Raised(e.rank + 1, e) /\ Observed(e)

TraceInit == Init /\ l = 1
TraceNext == l <= Len(Events) /\ Act(Ev) /\ Match(Ev) /\ l' = l + 1
ActOnly == l <= Len(Events) /\ Act(Ev) /\ l' = l + 1
TraceStutter == UNCHANGED tvars
TraceSpecNext == TraceNext \/ TraceStutter

FinalMatches ==
  Has(I, "final") =>
    \A r \in Ranks : CASE I.final[r] = "blocked" -> Blocked(r)
                       [] I.final[r] = "any" -> TRUE
                       [] OTHER -> pc[r] = I.final[r]

Verdict ==
  IF l > Len(Events)
  THEN IF FinalMatches THEN PrintT(<<"V", I.id, "ok">>)
       ELSE PrintT(<<"V", I.id, "rejected", l, "end", "final_state">>)
  ELSE IF ENABLED TraceNext THEN TRUE
  ELSE PrintT(<<"V", I.id, "rejected", l, Ev.ev,
                IF ENABLED ActOnly THEN "successor_differs" ELSE "action_not_enabled">>)
=============================================================================
