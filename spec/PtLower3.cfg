CONSTANTS
  MaxLen = 2
  MaxDim = 3
  KindsB = {}
  Rich = TRUE
INIT Init
NEXT Next
INVARIANT LowerCorrect
CHECK_DEADLOCK FALSE
