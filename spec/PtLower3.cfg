CONSTANTS
  MaxLen = 2
  MaxDim = 3
INIT Init
NEXT Next
INVARIANT LowerCorrect
CHECK_DEADLOCK FALSE
