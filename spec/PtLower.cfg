CONSTANTS
  MaxLen = 3
  MaxDim = 2
INIT Init
NEXT Next
INVARIANT LowerCorrect
CHECK_DEADLOCK FALSE
