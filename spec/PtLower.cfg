CONSTANTS
  MaxLen = 3
  MaxDim = 2
  KindsB = {}
  Rich = TRUE
INIT Init
NEXT Next
INVARIANT LowerCorrect
CHECK_DEADLOCK FALSE
