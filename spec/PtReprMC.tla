------------------------------ MODULE PtReprMC ------------------------------
(***************************************************************************)
(* Model checking of the stringifier's caching discipline (X02 c) over ALL *)
(* small DAGs: N nodes, each with up to two children among the earlier     *)
(* nodes (the same child twice allowed), each either an array (adds one to *)
(* the depth of its children) or a container that does not (a dictionary   *)
(* of named arrays).                                                       *)
(*                                                                         *)
(* Unfold is the specification (PtRepr!Print as a nested value).  Rec is   *)
(* the implementation's shape: a recursion that threads a cache through    *)
(* the fields in order; Mode selects the reference or a classic bug:       *)
(*   "ref"                cache keyed by (node, depth)                     *)
(*   "key_without_depth"  cache keyed by the node alone: a shared node is  *)
(*                        printed as deep as its FIRST occurrence allowed  *)
(*   "off_by_one"         truncates at depth >= D instead of depth > D     *)
(*   "no_cache"           correct text, exponential work                   *)
(* Invariants: Correct (Rec's text is the unfolding), Linear (the number   *)
(* of evaluations that were not cache hits is at most N x (D + 2)).        *)
(* The three bug configurations must be REFUTED by TLC.                    *)
(***************************************************************************)
EXTENDS Integers, Sequences, FiniteSets, TLC

CONSTANTS N, D, Mode

KidSeqs(i) == {<<>>} \cup {<<a>> : a \in 1..(i - 1)}
              \cup {<<a, b>> : a \in 1..(i - 1), b \in 1..(i - 1)}
RECURSIVE Shapes(_)
Shapes(i) == IF i = 0 THEN {<<>>}
             ELSE {Append(s, [kids |-> ks, bump |-> b]) :
                     s \in Shapes(i - 1), ks \in KidSeqs(i), b \in {0, 1}}

VARIABLE g
Init == g \in Shapes(N)
Next == UNCHANGED g

TruncText == <<0, <<>>>>
Trunc(d) == IF Mode = "off_by_one" THEN d >= D ELSE d > D

RECURSIVE Unfold(_, _)
Unfold(k, d) == IF d > D THEN TruncText
                ELSE <<k, [q \in DOMAIN g[k].kids |-> Unfold(g[k].kids[q], d + g[k].bump)]>>

Key(k, d) == IF Mode = "key_without_depth" THEN <<k, 0>> ELSE <<k, d>>

\* st = [cache: key -> text, evals: number of evaluations that were no cache hit]
RECURSIVE Rec(_, _, _), RecKids(_, _, _, _, _)
Rec(k, d, st) ==
  IF Mode # "no_cache" /\ Key(k, d) \in DOMAIN st.cache
  THEN [val |-> st.cache[Key(k, d)], st |-> st]
  ELSE IF Trunc(d)
       THEN [val |-> TruncText,
             st |-> [cache |-> (Key(k, d) :> TruncText) @@ st.cache, evals |-> st.evals + 1]]
       ELSE LET r == RecKids(k, d, 1, <<>>, [st EXCEPT !.evals = @ + 1])
                v == <<k, r.vals>>
            IN [val |-> v, st |-> [r.st EXCEPT !.cache = (Key(k, d) :> v) @@ @]]
RecKids(k, d, q, acc, st) ==
  IF q > Len(g[k].kids) THEN [vals |-> acc, st |-> st]
  ELSE LET r == Rec(g[k].kids[q], d + g[k].bump, st)
       IN RecKids(k, d, q + 1, Append(acc, r.val), r.st)

Run == Rec(N, 0, [cache |-> <<>>, evals |-> 0])
Correct == Run.val = Unfold(N, 0)
\* (a container does not add to the depth, so depths stay within 0..D+1)
Linear == Run.st.evals <= N * (D + 2)
=============================================================================
