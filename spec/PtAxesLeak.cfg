CONSTANTS
  N = 2
  T = 2
  WithMay = FALSE
  WithRedn = FALSE
INIT InitAll
NEXT Stutter
INVARIANTS ImplWithinUpper
CHECK_DEADLOCK FALSE
