CONSTANTS
  N = 3
  T = 3
  WithMay = TRUE
  WithRedn = TRUE
INIT Init
NEXT Next
INVARIANTS AllInvariants MovesFromHere
CHECK_DEADLOCK FALSE
