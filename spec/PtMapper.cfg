\* default exhaustive configuration: every DAG shape with <= 4 nodes and
\* out-degree <= 2, with and without duplicates, every mapper variant without
\* extra arguments, every per-node behaviour.  checks/c13.py generates the other
\* configurations (5 nodes, out-degree 3, any order, extra arguments).
CONSTANTS
  MaxN = 4
  MaxAr = 2
  Families = {"transform", "combine", "walk"}
  Keys = {"expr", "id"}
  Extras = {FALSE}
  Cacheds = {TRUE, FALSE}
  ErrCols = {TRUE, FALSE}
  ErrDups = {TRUE, FALSE}
  Dups = TRUE
  ChgSet = {0, 1, 2}
  AnyOrder = FALSE
  Emit = FALSE
INIT Init
NEXT Next
INVARIANTS TypeOK OncePerKey UncachedCost AllChildrenReached SharedMapsToOne
  IdentityWhenUnchanged ResultsDeduplicated NoMoreNodesThanGiven CollisionReported
  DuplicateReported CombineComplete EmitFinal
CHECK_DEADLOCK TRUE
