------------------------------ MODULE DistExec ------------------------------
(***************************************************************************)
(* pytato/distributed/execute.py : execute_distributed_partition, at the   *)
(* grain of its blocking MPI calls, running on ALL ranks at once over a    *)
(* model of MPI point-to-point matching.                                   *)
(*                                                                         *)
(* The instance data is a REAL partition of every rank, exported by        *)
(* ptverif/distharness.py (export_instance) after find_distributed_partition*)
(* -> verify_distributed_partition -> number_distributed_tags ran on all   *)
(* ranks.  A batch of instances is read from JSON and the instance is      *)
(* chosen in Init, so one TLC run model-checks the whole batch.            *)
(*                                                                         *)
(* One action per critical section of the code (line numbers of execute.py):*)
(*   PostRecvs(r)   120-164  post every receive in list order, copy the    *)
(*                           user inputs into the context, count how many  *)
(*                           parts read each input name                    *)
(*   ExecPart(r,p)  168-187, 216-223  read all_input_names from the        *)
(*                           context (KeyError = crash), run the part,     *)
(*                           store its outputs, Isend every send node,     *)
(*                           decrement refcounts, delete names at zero     *)
(*   WaitSome(r,S)  189-205  Waitsome returns a non-empty set S of         *)
(*                           completable receives; their buffers are bound *)
(*                           to the received names                         *)
(*   Spin(r)        209-226  nothing ready and no request left: the real   *)
(*                           loop would call Waitsome([]) for ever         *)
(*   Drain(r)       230-238  Wait for every send, debug asserts, return    *)
(* The readiness test (209-215) depends on rank-local state only, so it is *)
(* folded into the action that precedes it (operator Advance); likewise    *)
(* the return of a rank that never sent anything is part of its last       *)
(* ExecPart, because there is no blocking call in between.  With this the  *)
(* states of the model are exactly the states in which every rank of the   *)
(* real executor sits at a blocking call, and the two state sets are       *)
(* compared (checks/c08.py).                                               *)
(*                                                                         *)
(* Values are small integers: Exp(r, name) is the id of the value the      *)
(* unpartitioned global data-flow graph assigns (received names, overall   *)
(* outputs) resp. the value the part expression has in that context (part  *)
(* outputs); a part fed anything else produces 0 ("poison").               *)
(*                                                                         *)
(* MPI: net[<<s,d>>] is the FIFO of messages from s to d not yet handed to *)
(* a completed receive.  A pending receive (source, tag) is completable    *)
(* when it is the k-th pending receive of its (source, tag) class in       *)
(* posting order and the channel holds at least k messages of that tag     *)
(* (non-overtaking); receives of different classes complete in any order.  *)
(* A send completes (Wait returns) once the message is matched by a posted *)
(* receive -- the stricter of the two completion rules MPI permits.        *)
(***************************************************************************)
EXTENDS Naturals, Sequences, FiniteSets, TLC, Json, IOUtils

Batch == JsonDeserialize(IOEnv.BATCH_FILE)

MaxRanks == 8

VARIABLES inst,       \* index into Batch, constant along a behaviour
          pc,         \* rank -> "post" | "exec" | "wait" | "drain" | "done" | "crashed" | "spinning"
          ctx,        \* rank -> (name -> value id)          execute.py: context
          toExec,     \* rank -> set of part ids             pids_to_execute
          executed,   \* rank -> set of part ids             pids_executed
          recvDone,   \* rank -> set of names                recv_names_completed
          pending,    \* rank -> sequence of posted-receive indices still active (recv_requests)
          refc,       \* rank -> (input name -> count)       partition_input_names_refcount
          ready,      \* rank -> set of part ids             ready_pids (rest of the for loop)
          released,   \* rank -> set of names deleted from the context
          net,        \* <<src, dst>> -> sequence of [tag, val]
          err         \* rank -> "" or the first thing that went wrong on that rank

vars == <<inst, pc, ctx, toExec, executed, recvDone, pending, refc, ready, released, net, err>>

---------------------------------------------------------------------------
(* the instance *)
I == Batch[inst]
Ranks == 1..I.n
Rk(r) == I.ranks[r]
Rng(s) == {s[k] : k \in DOMAIN s}
Pids(r) == 1..Len(Rk(r).parts)
Pt(r, p) == Rk(r).parts[p]
Ins(r, p) == Rng(Pt(r, p).ins)
Outs(r, p) == Rng(Pt(r, p).outs)
Needed(r, p) == {q + 1 : q \in Rng(Pt(r, p).needed)}
RecvNames(r, p) == {Pt(r, p).recvs[k].name : k \in DOMAIN Pt(r, p).recvs}
Posted(r) == Rk(r).posted
AllIns(r) == UNION {Ins(r, p) : p \in Pids(r)}
HasSends(r) == \E p \in Pids(r) : Len(Pt(r, p).sends) > 0
Exp(r, nm) == IF nm \in DOMAIN Rk(r).exp THEN Rk(r).exp[nm] ELSE 0
GOut(r, nm) == IF nm \in DOMAIN Rk(r).gout THEN Rk(r).gout[nm] ELSE 0
Overall(r) == Rng(Rk(r).overall)

---------------------------------------------------------------------------
(* sequences *)
RECURSIVE Filt(_, _, _)
Filt(seq, i, keep) == IF i > Len(seq) THEN <<>>
                      ELSE (IF i \in keep THEN <<seq[i]>> ELSE <<>>) \o Filt(seq, i + 1, keep)
PosIn(seq, x) == CHOOSE k \in DOMAIN seq : seq[k] = x
\* how many messages up to and including position i carry the tag of message i
RankIn(seq, i) == Cardinality({j \in 1..i : seq[j].tag = seq[i].tag})

---------------------------------------------------------------------------
(* MPI matching *)
Cls(r, q) == <<Posted(r)[q].src + 1, Posted(r)[q].tag>>
PendOf(r, c) == SelectSeq(pending[r], LAMBDA q : Cls(r, q) = c)
MsgsOf(r, c) == IF c[1] \in Ranks THEN SelectSeq(net[<<c[1], r>>], LAMBDA m : m.tag = c[2])
                ELSE <<>>
Completable(r) == {q \in Rng(pending[r]) :
                     PosIn(PendOf(r, Cls(r, q)), q) <= Len(MsgsOf(r, Cls(r, q)))}
PrefixClosed(r, S) == \A q \in S : \A q2 \in Rng(pending[r]) :
                        (Cls(r, q2) = Cls(r, q) /\ PosIn(pending[r], q2) < PosIn(pending[r], q))
                        => q2 \in S
ValOf(r, q) == MsgsOf(r, Cls(r, q))[PosIn(PendOf(r, Cls(r, q)), q)].val
\* the messages of channel <<s, r>> that remain after the receives S completed
Remaining(r, S, s) ==
  LET seq == net[<<s, r>>]
      k(t) == Cardinality({q \in S : Cls(r, q) = <<s, t>>})
  IN Filt(seq, 1, {i \in DOMAIN seq : RankIn(seq, i) > k(seq[i].tag)})
\* every message rank r has in flight is matched by a receive posted at its destination
SendsMatchable(r) ==
  \A d \in Ranks : LET seq == net[<<r, d>>]
                   IN \A i \in DOMAIN seq : RankIn(seq, i) <= Len(PendOf(d, <<r, seq[i].tag>>))

---------------------------------------------------------------------------
(* what the rank does after the loop: lines 230-238 *)
FinishPc(r, c, rc) ==
  IF \E nm \in DOMAIN rc : rc[nm] # 0 THEN <<"crashed", "assert_refcount">>
  ELSE IF \E nm \in DOMAIN rc : nm \in DOMAIN c THEN <<"crashed", "assert_input_left">>
  ELSE IF ~(Overall(r) \subseteq DOMAIN c) THEN <<"crashed", "output_missing">>
  ELSE IF \E nm \in Overall(r) : c[nm] # GOut(r, nm) THEN <<"done", "output_wrong">>
  ELSE <<"done", "">>

\* the readiness test of lines 209-215 and the loop exit, evaluated on the
\* state the preceding action leaves behind
Advance(r, toEx, exd, rd, c, rc) ==
  IF toEx = {}
  THEN IF HasSends(r) THEN [pc |-> "drain", ready |-> {}, err |-> ""]
       ELSE LET f == FinishPc(r, c, rc) IN [pc |-> f[1], ready |-> {}, err |-> f[2]]
  ELSE LET rs == {p \in toEx : Needed(r, p) \subseteq exd /\ RecvNames(r, p) \subseteq rd}
       IN IF rs = {} THEN [pc |-> "wait", ready |-> {}, err |-> ""]
          ELSE [pc |-> "exec", ready |-> rs, err |-> ""]

Sticky(r, e) == IF err[r] # "" THEN err[r] ELSE e

Crash(r, why) ==
  /\ pc' = [pc EXCEPT ![r] = "crashed"]
  /\ err' = [err EXCEPT ![r] = Sticky(r, why)]
  /\ UNCHANGED <<inst, ctx, toExec, executed, recvDone, pending, refc, ready, released, net>>

---------------------------------------------------------------------------
Init ==
  /\ inst \in 1..Len(Batch)
  /\ pc = [r \in Ranks |-> "post"]
  /\ ctx = [r \in Ranks |-> <<>>]
  /\ toExec = [r \in Ranks |-> Pids(r)]
  /\ executed = [r \in Ranks |-> {}]
  /\ recvDone = [r \in Ranks |-> {}]
  /\ pending = [r \in Ranks |-> <<>>]
  /\ refc = [r \in Ranks |-> <<>>]
  /\ ready = [r \in Ranks |-> {}]
  /\ released = [r \in Ranks |-> {}]
  /\ net = [ch \in Ranks \X Ranks |-> <<>>]
  /\ err = [r \in Ranks |-> ""]

PostRecvs(r) ==
  /\ pc[r] = "post"
  /\ LET c0 == [nm \in Rng(Rk(r).userin) |-> Exp(r, nm)]
         rc0 == [nm \in AllIns(r) |-> Cardinality({p \in Pids(r) : nm \in Ins(r, p)})]
         a == Advance(r, toExec[r], {}, {}, c0, rc0)
     IN /\ ctx' = [ctx EXCEPT ![r] = c0]
        /\ refc' = [refc EXCEPT ![r] = rc0]
        /\ pending' = [pending EXCEPT ![r] = [k \in 1..Len(Posted(r)) |-> k]]
        /\ pc' = [pc EXCEPT ![r] = a.pc]
        /\ ready' = [ready EXCEPT ![r] = a.ready]
        /\ err' = [err EXCEPT ![r] = Sticky(r, a.err)]
  /\ UNCHANGED <<inst, toExec, executed, recvDone, released, net>>

RECURSIVE MsgsTo(_, _, _, _)
MsgsTo(sends, k, d, c) ==
  IF k > Len(sends) THEN <<>>
  ELSE (IF sends[k].dst + 1 = d THEN <<[tag |-> sends[k].tag, val |-> c[sends[k].name]]>>
        ELSE <<>>) \o MsgsTo(sends, k + 1, d, c)

\* rdy: the ready set this execution is taken from (ready[r] in DistExec itself)
ExecPartFrom(r, p, rdy) ==
  /\ p \in rdy
  /\ LET c0 == ctx[r]
         missing == Ins(r, p) \ DOMAIN c0
         sends == Pt(r, p).sends
     IN IF missing # {}
        THEN Crash(r, IF missing \cap released[r] # {} THEN "use_after_release"
                      ELSE "read_before_produced")
        ELSE
        LET good == \A nm \in Ins(r, p) : c0[nm] = Exp(r, nm)
            c1 == [nm \in DOMAIN c0 \cup Outs(r, p) |->
                     IF nm \in Outs(r, p) THEN (IF good THEN Exp(r, nm) ELSE 0) ELSE c0[nm]]
        IN IF \E k \in DOMAIN sends : sends[k].name \notin DOMAIN c1
           THEN Crash(r, "sent_name_missing")
           ELSE IF \E k \in DOMAIN sends : sends[k].dst + 1 \notin Ranks
           THEN Crash(r, "invalid_rank")
           ELSE
           LET rc1 == [nm \in DOMAIN refc[r] |->
                         IF nm \in Ins(r, p) THEN refc[r][nm] - 1 ELSE refc[r][nm]]
               dead == {nm \in Ins(r, p) : rc1[nm] = 0}
               c2 == [nm \in DOMAIN c1 \ dead |-> c1[nm]]
               exd == executed[r] \cup {p}
               toEx == toExec[r] \ {p}
               rest == rdy \ {p}
               a == IF rest # {} THEN [pc |-> "exec", ready |-> rest, err |-> ""]
                    ELSE Advance(r, toEx, exd, recvDone[r], c2, rc1)
           IN /\ ctx' = [ctx EXCEPT ![r] = c2]
              /\ net' = [ch \in DOMAIN net |->
                           IF ch[1] = r THEN net[ch] \o MsgsTo(sends, 1, ch[2], c1) ELSE net[ch]]
              /\ refc' = [refc EXCEPT ![r] = rc1]
              /\ released' = [released EXCEPT ![r] = @ \cup dead]
              /\ executed' = [executed EXCEPT ![r] = exd]
              /\ toExec' = [toExec EXCEPT ![r] = toEx]
              /\ ready' = [ready EXCEPT ![r] = a.ready]
              /\ pc' = [pc EXCEPT ![r] = a.pc]
              /\ err' = [err EXCEPT ![r] = Sticky(r, a.err)]
              /\ UNCHANGED <<inst, recvDone, pending>>

ExecPart(r, p) == pc[r] = "exec" /\ ExecPartFrom(r, p, ready[r])

NameOfQ(r, q) == Posted(r)[q].name

WaitSome(r, S) ==
  /\ pc[r] = "wait"
  /\ S # {} /\ S \subseteq Completable(r) /\ PrefixClosed(r, S)
  /\ LET names == {NameOfQ(r, q) : q \in S}
         \* completed indices are processed in descending order: the lowest index wins
         qOf(nm) == CHOOSE q \in S : NameOfQ(r, q) = nm /\
                       \A q2 \in S : NameOfQ(r, q2) = nm => PosIn(pending[r], q) <= PosIn(pending[r], q2)
         c1 == [nm \in DOMAIN ctx[r] \cup names |->
                  IF nm \in names THEN ValOf(r, qOf(nm)) ELSE ctx[r][nm]]
         rd == recvDone[r] \cup names
         a == Advance(r, toExec[r], executed[r], rd, c1, refc[r])
         wrong == \E nm \in names : c1[nm] # Exp(r, nm)
     IN /\ ctx' = [ctx EXCEPT ![r] = c1]
        /\ recvDone' = [recvDone EXCEPT ![r] = rd]
        /\ pending' = [pending EXCEPT ![r] = SelectSeq(@, LAMBDA q : q \notin S)]
        /\ net' = [ch \in DOMAIN net |-> IF ch[2] = r THEN Remaining(r, S, ch[1]) ELSE net[ch]]
        /\ pc' = [pc EXCEPT ![r] = a.pc]
        /\ ready' = [ready EXCEPT ![r] = a.ready]
        /\ err' = [err EXCEPT ![r] = Sticky(r, IF wrong THEN "misdelivery" ELSE a.err)]
  /\ UNCHANGED <<inst, toExec, executed, refc, released>>

Spin(r) ==
  /\ pc[r] = "wait" /\ pending[r] = <<>>
  /\ pc' = [pc EXCEPT ![r] = "spinning"]
  /\ err' = [err EXCEPT ![r] = Sticky(r, "spin")]
  /\ UNCHANGED <<inst, ctx, toExec, executed, recvDone, pending, refc, ready, released, net>>

Drain(r) ==
  /\ pc[r] = "drain" /\ SendsMatchable(r)
  /\ LET f == FinishPc(r, ctx[r], refc[r])
     IN /\ pc' = [pc EXCEPT ![r] = f[1]]
        /\ err' = [err EXCEPT ![r] = Sticky(r, f[2])]
  /\ UNCHANGED <<inst, ctx, toExec, executed, recvDone, pending, refc, ready, released, net>>

RankStep(r) ==
  \/ PostRecvs(r)
  \/ \E p \in ready[r] : ExecPart(r, p)
  \/ \E S \in SUBSET Completable(r) : WaitSome(r, S)
  \/ Spin(r)
  \/ Drain(r)

Final(r) == pc[r] \in {"done", "crashed", "spinning"}
Blocked(r) == \/ pc[r] = "wait" /\ pending[r] # <<>> /\ Completable(r) = {}
              \/ pc[r] = "drain" /\ ~SendsMatchable(r)
Halted == \A r \in Ranks : Final(r) \/ Blocked(r)

Next == \/ \E r \in Ranks : RankStep(r)
        \/ Halted /\ UNCHANGED vars

Spec == Init /\ [][Next]_vars
LiveSpec == Spec /\ \A r \in 1..MaxRanks : WF_vars(r \in Ranks /\ RankStep(r))

---------------------------------------------------------------------------
(* properties *)
AllDone == \A r \in Ranks : pc[r] = "done"
Errs == {err[r] : r \in Ranks} \ {""}
Deadlock == Halted /\ (\E r \in Ranks : Blocked(r)) /\ Errs = {}

NoCrash == \A r \in Ranks : pc[r] # "crashed"
NoSpin == \A r \in Ranks : pc[r] # "spinning"
FaithfulRecv == \A r \in Ranks : /\ err[r] # "misdelivery"
                                 /\ \A nm \in recvDone[r] \cap DOMAIN ctx[r] :
                                       nm \notin UNION {Outs(r, p) : p \in executed[r]}
                                       => ctx[r][nm] = Exp(r, nm)
NoUseAfterRelease == \A r \in Ranks : err[r] # "use_after_release"
NoReadBeforeProduced == \A r \in Ranks : err[r] # "read_before_produced"
OutputsPresent == \A r \in Ranks : err[r] \notin {"output_missing", "output_wrong"}
DeadlockFree == ~Deadlock
\* the hand-written stuck-predicates agree with TLC's notion of enabledness
HaltedIsDisabled == Halted <=> ~ENABLED (\E r \in Ranks : RankStep(r))
Termination == <>AllDone

\* per-instance verdict: one line per halted state, never a TLC-level failure,
\* so that one run reports every bad instance of the batch
\* a rank returned although one of its receive requests never completed / all
\* ranks returned although a message was never received: something was posted
\* or sent that no part waits for
RequestLeft == \E r \in Ranks : pc[r] = "done" /\ pending[r] # <<>>
MessageLeft == AllDone /\ \E ch \in DOMAIN net : net[ch] # <<>>
NoLeftovers == ~RequestLeft /\ ~MessageLeft
Clause == IF Errs # {} THEN CHOOSE e \in Errs : TRUE
          ELSE IF Deadlock THEN "deadlock"
          ELSE IF ~FaithfulRecv THEN "misdelivery"
          ELSE IF RequestLeft THEN "request_left_pending"
          ELSE IF MessageLeft THEN "message_never_received"
          ELSE "ok"
Report == /\ (Halted => PrintT(<<"T", I.id, Clause>>))
          /\ (~Halted /\ ~FaithfulRecv => PrintT(<<"T", I.id, "misdelivery">>))

---------------------------------------------------------------------------
(* projection compared with the states of the real executor *)
Abs ==
  [ranks |-> [r \in Ranks |->
                [pc |-> pc[r],
                 ctx |-> {<<nm, ctx[r][nm]>> : nm \in DOMAIN ctx[r]},
                 executed |-> {p - 1 : p \in executed[r]},
                 rdone |-> recvDone[r],
                 pending |-> [k \in DOMAIN pending[r] |-> pending[r][k] - 1]]],
   net |-> {<<ch[1] - 1, ch[2] - 1, [k \in DOMAIN net[ch] |-> <<net[ch][k].tag, net[ch][k].val>>]>> :
              ch \in {c \in DOMAIN net : net[c] # <<>>}}]
Dump == ("dump" \in DOMAIN I /\ I.dump) => PrintT(<<"S", I.id, ToJson(Abs)>>)
=============================================================================
