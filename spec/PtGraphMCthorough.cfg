CONSTANTS
  MaxN = 4
  MaxAr = 3
INIT Init
NEXT Next
INVARIANTS Converse Edges Counts Topo Mat SendConvention
CHECK_DEADLOCK FALSE
