CONSTANTS
  N = 5
  WithFn = FALSE
  TwoParts = TRUE
  Bug = "none"
INIT Init
NEXT Next
INVARIANTS AtEnd Progress
CHECK_DEADLOCK FALSE
