---------------------------- MODULE PtGraphCheck ----------------------------
(***************************************************************************)
(* Validation use of PtGraph (DESIGN 2.1 E): every record carries a typed  *)
(* DAG exported by the REFLECTIVE walk and the answers of pytato's real    *)
(* graph analyses about it (ptverif/mapperharness.py, export_analyses).    *)
(* A record is judged once per `view` (one family of clauses), so that a   *)
(* finding in one family cannot hide another:                              *)
(*   preds     ListOfDirectPredecessorsGetter / DirectPredecessorsGetter   *)
(*   lusers    get_list_of_users / get_nusers                              *)
(*   converse  users are the converse of predecessors, with multiplicity   *)
(*   users     get_users (UsersCollector)                                  *)
(*   agree     the users implementations agree with each other             *)
(*   recusers  rec_get_user_nodes                                          *)
(*   topo      TopoSortMapper                                              *)
(*   counts    get_num_nodes, get_node_type_counts, multiplicities, tags,  *)
(*             call sites                                                  *)
(*   mat       collect_materialized_nodes                                  *)
(* One verdict line <<"V", id, clause, detail>> per record.  Node numbers: *)
(* 0 = an object that is not a node of the exported graph, -9 = the        *)
(* analysis raised for that node.                                          *)
(***************************************************************************)
EXTENDS PtGraph, Json, IOUtils

Batch == JsonDeserialize(IOEnv.BATCH_FILE)
VARIABLE r
Init == r \in 1..Len(Batch)
Next == UNCHANGED r

Has(rec, f) == f \in DOMAIN rec
Raised(x) == x = <<-9>>
\* every answer X comes with X_st = "ok" or the name of the exception raised
St(g, f) == g.res[f \o "_st"]
Bad(g, f) == St(g, f) # "ok"

TopNodes(g) == {v \in Top(g) : ~IsFn(g, v)}
TopArrays(g) == {v \in Top(g) : g.isarr[v]}
\* the kind of dependency of v on (an array equal to) u, for reports:
\* "derived" if u is in v's derived shape, else the kind of a field holding it
AnyKind(g, v, u) ==
  LET ks == UNION {EdgeKinds(g, v, w) : w \in {x \in Nodes(g) : g.cls[x] = g.cls[u]
                                                              /\ g.ns[x] = g.ns[u]}}
      der == \E w \in {x \in Nodes(g) : g.cls[x] = g.cls[u] /\ g.ns[x] = g.ns[u]} :
                Derived(g, v, w)
  IN IF der \/ ks = {} THEN "derived" ELSE CHOOSE kd \in ks : TRUE
SendOnly(g, v, u) == EdgeKinds(g, v, u) = {"send"}
\* The user maps are dictionaries keyed by ==: structurally equal arrays of
\* one name space share one entry.  Same(g, u): the arrays equal to u.
Same(g, u) == {w \in TopArrays(g) : g.cls[w] = g.cls[u]}
MultNoSendEq(g, v, u) == SumOver(Same(g, u), LAMBDA w : MultNoSend(g, v, w))
DerivedEq(g, v, u) == \E w \in Same(g, u) : Derived(g, v, w)
ClsOf(g, x) == IF x \in Nodes(g) THEN g.cls[x] ELSE 0 - 1
ClsSet(g, s) == {ClsOf(g, s[i]) : i \in DOMAIN s}
TopHasDups(g) == \E v, w \in TopNodes(g) \cap LiveTop(g) : v # w /\ g.cls[v] = g.cls[w]

\* Every clause family yields the SET of its failing clauses (strings
\* "<clause>:<node kind>:<edge kind>"), so that one finding cannot hide
\* another one in the same graph.

\* -- predecessors ----------------------------------------------------------
PredsClause(g) ==
  LET P(v) == g.res.preds[v]
      ok(v) == ~Raised(P(v)) IN
  {"preds_raise:" \o g.kind[v] : v \in {w \in TopNodes(g) : Raised(P(w))}}
  \cup {"preds_missing:" \o g.kind[x[1]] \o ":" \o AnyKind(g, x[1], x[2]) :
          x \in {y \in TopNodes(g) \X Nodes(g) :
                   ok(y[1]) /\ Count(P(y[1]), y[2]) < Mult(g, y[1], y[2])}}
  \cup {"preds_extra:" \o g.kind[x[1]] :
          x \in {y \in TopNodes(g) \X (Nodes(g) \cup {0}) :
                   LET v == y[1] u == y[2] IN
                   ok(v) /\ Count(P(v), u) > (IF u = 0 THEN 0 ELSE Mult(g, v, u))
                   /\ ~(u # 0 /\ (Derived(g, v, u) \/ OptionalChild(g, v, u)))
                   /\ ~(u = 0 /\ 0 \in Range(g.dshape[v]))}}
  \cup {"preds_set_differs_from_list:" \o g.kind[v] :
          v \in {w \in TopNodes(g) : ok(w) /\
                   \* a FrozenOrderedSet: equal predecessors are one element
                   (ClsSet(g, g.res.predset[w]) # ClsSet(g, P(w))
                    \/ Len(g.res.predset[w]) # Cardinality(ClsSet(g, P(w))))}}
  \cup {"preds_include_functions:" \o g.kind[v] :
          v \in {w \in TopNodes(g) : ok(w) /\ \E f \in Nodes(g) : IsFn(g, f) /\
                   Count(g.res.predsf[w], f) #
                     Cardinality({p \in Pos(g, w) : g.ch[w][p] = f /\ g.ek[w][p] = "function"})}}

\* -- list of users ---------------------------------------------------------
LUsersClause(g) ==
  IF Bad(g, "lusers") THEN {"lusers_raise:" \o St(g, "lusers")} ELSE
  LET L(u) == g.res.lusers[u] IN
  {"lusers_missing:" \o g.kind[x[2]] \o ":" \o AnyKind(g, x[2], x[1]) :
      x \in {y \in TopArrays(g) \X TopNodes(g) : Count(L(y[1]), y[2]) < MultNoSendEq(g, y[2], y[1])}}
  \cup {"lusers_extra:" \o (IF x[2] = 0 THEN "foreign" ELSE g.kind[x[2]]) :
      x \in {y \in TopArrays(g) \X (TopNodes(g) \cup {0}) :
               Count(L(y[1]), y[2]) > (IF y[2] = 0 THEN 0 ELSE MultNoSendEq(g, y[2], y[1]))
               /\ ~(y[2] # 0 /\ DerivedEq(g, y[2], y[1]))}}
  \cup (IF g.res.lusers_foreign # 0 THEN {"lusers_key_not_in_graph"} ELSE {})
  \cup {"nusers_differs_from_list" : u \in {w \in TopArrays(g) : g.res.nusers[w] # Len(L(w))}}

\* -- converse with multiplicity -------------------------------------------
ConverseClause(g) ==
  IF Bad(g, "lusers") THEN {} ELSE
  {"converse:" \o g.kind[x[2]] \o ":" \o AnyKind(g, x[2], x[1]) :
     x \in {y \in TopArrays(g) \X TopNodes(g) :
              LET u == y[1] v == y[2] IN
              ~Raised(g.res.preds[v]) /\ ~SendOnly(g, v, u) /\
              Count(g.res.lusers[u], v) #
                SumOver(Same(g, u), LAMBDA w : Count(g.res.preds[v], w) -
                   Cardinality({p \in Pos(g, v) : g.ch[v][p] = w /\ g.ek[v][p] = "send"}))}}

\* -- get_users -------------------------------------------------------------
UsersClause(g) ==
  \* UsersCollector is keyed by the expression and detects collisions:
  \* with structural duplicates it must (and does) raise
  IF Bad(g, "users") THEN (IF St(g, "users") = "ValueError" /\ TopHasDups(g) THEN {}
                           ELSE {"users_raise:" \o St(g, "users")}) ELSE
  LET S(u) == Range(g.res.users[u])
      live == TopNodes(g) \cap LiveTop(g) IN
  (IF g.res.users[Root(g)] = <<-7>> THEN {"users_root_has_no_entry"} ELSE {})
  \cup {"users_missing:" \o g.kind[x[2]] \o ":" \o AnyKind(g, x[2], x[1]) :
      x \in {y \in live \X live : MultNoSend(g, y[2], y[1]) > 0 /\ y[2] \notin S(y[1])}}
  \cup {"users_extra:" \o (IF x[2] = 0 THEN "foreign" ELSE g.kind[x[2]]) :
      x \in {y \in live \X (Nodes(g) \cup {0}) :
               y[2] \in S(y[1]) /\
               (y[2] = 0 \/ (Mult(g, y[2], y[1]) = 0 /\ ~Derived(g, y[2], y[1])))}}
  \cup {"users_send_count" :
      u \in {w \in live : g.res.users_send[w] #
                Cardinality({v \in live : \E p \in Pos(g, v) :
                               g.ch[v][p] = w /\ g.ek[v][p] = "send"})}}

\* -- the implementations agree --------------------------------------------
AgreeClause(g) ==
  IF Bad(g, "users") \/ Bad(g, "lusers") THEN {} ELSE
  {"users_implementations_disagree:" \o
       (IF x[2] \in Nodes(g) THEN g.kind[x[2]] \o ":" \o AnyKind(g, x[2], x[1]) ELSE "foreign") :
     x \in {y \in (TopArrays(g) \cap LiveTop(g)) \X (Nodes(g) \cup {0}) :
              (y[2] \in Range(g.res.lusers[y[1]])) # (y[2] \in Range(g.res.users[y[1]]))}}

\* -- rec_get_user_nodes ----------------------------------------------------
RecUsersClause(g) ==
  LET rows == g.res.recusers
      AncMust(u) == {v \in TopNodes(g) \cap LiveTop(g) : v # u /\ u \in ReachNS(g, v)}
      AncMay(u) == {v \in TopNodes(g) \cap LiveTop(g) : v # u /\ u \in ReachNF(g, v)}
      live == {i \in DOMAIN rows : rows[i][1] \in LiveTop(g)} IN
  {"recusers_raise" : i \in {j \in live : Raised(rows[j][2]) /\ ~TopHasDups(g)}}
  \cup {"recusers_missing:" \o g.kind[x[2]] :
      x \in {y \in live \X Nodes(g) :
               ~Raised(rows[y[1]][2]) /\ y[2] \in AncMust(rows[y[1]][1])
               /\ y[2] \notin Range(rows[y[1]][2])}}
  \cup {"recusers_extra" :
      i \in {j \in live : ~Raised(rows[j][2]) /\
                ~(Range(rows[j][2]) \subseteq AncMay(rows[j][1]))}}

\* -- topological order -----------------------------------------------------
TopoClause(g) ==
  IF Bad(g, "topo") THEN {"topo_raise:" \o St(g, "topo")}
  ELSE IF TopoOK(g, g.res.topo) THEN {}
  ELSE IF Range(g.res.topo) # {v \in LiveTop(g) : g.isarr[v]} THEN {"topo_node_set"}
       ELSE IF Len(g.res.topo) # Cardinality(Range(g.res.topo)) THEN {"topo_repeats"}
       ELSE {"topo_order"}

\* -- counts ----------------------------------------------------------------
\* NodeCountMapper clones itself for function bodies and keeps the clone's
\* counts to itself, so both "caller's name space only" and "all name
\* spaces" are accepted where the documentation does not say
TopPlusFns(g) == LiveTop(g) \cup {f \in Nodes(g) : IsFn(g, f) /\ \E v \in LiveTop(g) :
                                      \E p \in Pos(g, v) : g.ch[v][p] = f}
Scopes(g) == {TopPlusFns(g), Live(g)}
PairsToFn(ps) == [k \in {ps[i][1] : i \in DOMAIN ps} |->
                     (ps[CHOOSE i \in DOMAIN ps : ps[i][1] = k][2])]
HasDups(g, S) == \E v, w \in S : v # w /\ g.cls[v] = g.cls[w] /\ g.ns[v] = g.ns[w]
CountsClause(g) ==
  LET res == g.res IN
  (IF Bad(g, "numnodes_dup") \/ Bad(g, "numnodes_nodup")
   THEN {"numnodes_raise:" \o St(g, "numnodes_dup") \o ":" \o St(g, "numnodes_nodup")}
   ELSE (IF \E S \in Scopes(g) : res.numnodes_dup = NumNodes(g, S, TRUE) THEN {}
         ELSE {"numnodes_with_duplicates"})
        \cup (IF \E S \in Scopes(g) : res.numnodes_nodup = NumNodes(g, S, FALSE) THEN {}
              ELSE {"numnodes_without_duplicates"}))
  \cup (IF Bad(g, "types_dup") \/ Bad(g, "types_nodup") THEN {"typecounts_raise"}
        ELSE (IF \E S \in Scopes(g) :
                   LET f == PairsToFn(res.types_dup) IN
                   /\ DOMAIN f = {g.kind[v] : v \in Counted(g, S)}
                   /\ \A kd \in DOMAIN f : f[kd] = TypeCount(g, S, TRUE, kd)
              THEN {} ELSE {"typecounts_with_duplicates"})
             \cup (IF \E S \in Scopes(g) :
                   LET f == PairsToFn(res.types_nodup) IN
                   /\ DOMAIN f = {g.kind[v] : v \in Counted(g, S)}
                   /\ \A kd \in DOMAIN f : f[kd] = TypeCount(g, S, FALSE, kd)
              THEN {} ELSE {"typecounts_without_duplicates"}))
  \cup (IF Bad(g, "mult") THEN {"multiplicities_raise"}
        ELSE IF \E S \in Scopes(g) :
                   LET f == PairsToFn(res.mult) IN
                   /\ DOMAIN f = {g.cls[v] : v \in Counted(g, S)}
                   /\ \A c \in DOMAIN f : f[c] = Multiplicity(g, S, c)
             THEN {} ELSE {"multiplicities"})
  \cup (IF Bad(g, "callsites") THEN {"callsites_raise"}
        ELSE IF res.callsites # CallSites(g, Live(g)) THEN {"callsites"} ELSE {})
  \cup (IF Bad(g, "tagcount")
        THEN (IF (St(g, "tagcount") = "NotImplementedError"
                  /\ \E v \in LiveTop(g) : g.kind[v] = "Call")
                 \/ (St(g, "tagcount") = "ValueError" /\ HasDups(g, LiveTop(g)))
              THEN {} ELSE {"tagcount_raise:" \o St(g, "tagcount")})
        ELSE (IF res.tagcount # TagCount(g, LiveTop(g), g.baz) THEN {"tagcount"} ELSE {})
             \cup (IF ~Bad(g, "tagcount_stored")
                      /\ res.tagcount_stored # TagCount(g, LiveTop(g), g.stored)
                   THEN {"tagcount_stored"} ELSE {}))

\* -- materialised nodes ----------------------------------------------------
MatClause(g) ==
  LET one(R, incl, nm) ==
        IF Bad(g, nm) THEN {"materialized_raise:" \o St(g, nm)}
        ELSE (IF MatMust(g, Live(g), incl) \subseteq Range(R) THEN {}
              ELSE {"materialized_missing:" \o nm})
             \cup (IF Range(R) \subseteq MatMay(g, Live(g), incl) THEN {}
                   ELSE {"materialized_extra:" \o nm})
  IN one(g.res.mat_out, TRUE, "mat_out") \cup one(g.res.mat_noout, FALSE, "mat_noout")

Clause(rec) ==
  CASE rec.view = "preds" -> PredsClause(rec)
    [] rec.view = "lusers" -> LUsersClause(rec)
    [] rec.view = "converse" -> ConverseClause(rec)
    [] rec.view = "users" -> UsersClause(rec)
    [] rec.view = "agree" -> AgreeClause(rec)
    [] rec.view = "recusers" -> RecUsersClause(rec)
    [] rec.view = "topo" -> TopoClause(rec)
    [] rec.view = "counts" -> CountsClause(rec)
    [] rec.view = "mat" -> MatClause(rec)

\* the set of failing clauses travels in the detail position of the line
Verdict == LET c == Clause(Batch[r]) IN
           PrintT(<<"V", Batch[r].id, IF c = {} THEN "ok" ELSE "failed", c>>)
=============================================================================
