------------------------------ MODULE PtInfer ------------------------------
(***************************************************************************)
(* C03: eager shape / dtype inference.  The specification's own inference  *)
(* rules (NumPy >= 2 semantics, NEP 50 promotion) for one API call, and    *)
(* the three-way verdict on a recorded call:                               *)
(*    rec.np = what NumPy did, rec.pt = what pytato did.                   *)
(*  "oracle"   spec and NumPy disagree: a defect of the SPEC (exit 2)      *)
(*  "accepted_invalid"  NumPy (and the spec) reject, pytato accepted       *)
(*  "shape" / "dtype"   both accept, pytato's answer differs               *)
(*  "ok"       agree, or pytato rejects (allowed: documented restrictions) *)
(*                                                                         *)
(* operands: [t |-> "arr", dtype, shape] | [t |-> "py", k] (Python scalar  *)
(* of kind b,i,f,c) | [t |-> "np", dtype] (NumPy scalar)                   *)
(***************************************************************************)
EXTENDS PtCore, Json, IOUtils

Batch == JsonDeserialize(IOEnv.BATCH_FILE)
VARIABLE r
Init == r \in 1..Len(Batch)
Next == UNCHANGED r

Reject == [ok |-> FALSE]
Accept(s, d) == [ok |-> TRUE, shape |-> s, dtype |-> d]

OpShape(o) == IF o.t = "arr" THEN o.shape ELSE <<>>
IsStrong(o) == o.t \in {"arr", "np"}

\* result_type of a sequence of operands under NEP 50
RECURSIVE StrongType(_, _)
StrongType(ops, k) ==    \* promoted type of the strong operands ops[k..], "" if none
  IF k > Len(ops) THEN ""
  ELSE LET rest == StrongType(ops, k + 1) IN
       IF ~IsStrong(ops[k]) THEN rest
       ELSE IF rest = "" THEN ops[k].dtype ELSE Promote(ops[k].dtype, rest)
RECURSIVE ApplyWeak(_, _, _)
ApplyWeak(d, ops, k) ==
  IF k > Len(ops) THEN d
  ELSE ApplyWeak(IF IsStrong(ops[k]) THEN d ELSE PromoteWeak(d, ops[k].k), ops, k + 1)
WeakKinds(ops) == {ops[j].k : j \in {q \in DOMAIN ops : ~IsStrong(ops[q])}}
HighestWeak(ops) ==
  CHOOSE k \in WeakKinds(ops) : \A z \in WeakKinds(ops) : KindRank(k) >= KindRank(z)
ResultType(ops) ==
  LET st == StrongType(ops, 1) IN
  IF st = "" THEN PyScalarDType(HighestWeak(ops)) ELSE ApplyWeak(st, ops, 1)

Shapes(ops) == [j \in DOMAIN ops |-> OpShape(ops[j])]

\* dtype of an elementwise operation of class cls on promoted type d
ArithType(op, d) ==
  CASE op \in {"add", "mul"} -> d
    [] op = "sub" -> d
    [] op = "truediv" -> TrueDivType(d)
    [] op \in {"floordiv", "mod", "pow"} -> IF d = "b1" THEN "i1" ELSE d
    [] op \in {"lt", "le", "gt", "ge", "eq", "ne", "logical_and", "logical_or"} -> "b1"
    [] op \in {"maximum", "minimum", "where"} -> d
    [] op \in {"bitand", "bitor", "bitxor"} -> d

\* combinations NumPy refuses with a TypeError (not shape errors; pytato may
\* or may not refuse them: they constrain nothing)
Untyped(op, d) ==
  \/ op = "sub" /\ d = "b1"
  \/ op \in {"floordiv", "mod"} /\ KindOf(d) = "c"
  \/ op \in {"lt", "le", "gt", "ge"} /\ FALSE
  \/ op \in {"bitand", "bitor", "bitxor"} /\ KindOf(d) \in {"f", "c"}

FloatFor(d) == IF KindOf(d) \in {"f", "c"} THEN d
               ELSE IF d \in {"b1", "i1", "u1"} THEN "f2"
               ELSE IF d \in {"i2", "u2"} THEN "f4" ELSE "f8"

RedType(op, d) ==
  CASE op \in {"sum", "prod"} ->
         IF d = "b1" \/ KindOf(d) = "i" THEN "i8"
         ELSE IF KindOf(d) = "u" THEN "u8" ELSE d
    [] op \in {"amax", "amin"} -> d
    [] op \in {"all", "any"} -> "b1"

NormAxis(ax, nd) == IF ax < 0 THEN ax + nd ELSE ax
AxisOK(ax, nd) == -nd <= ax /\ ax < nd
\* reductions and squeeze of a 0-d array accept axis 0 and -1 (a NumPy quirk)
AxisOK0(ax, nd) == IF nd = 0 THEN ax \in {-1, 0} ELSE AxisOK(ax, nd)
AllDistinct(s) == \A i, j \in DOMAIN s : i # j => s[i] # s[j]

RECURSIVE DropAxes(_, _, _)
DropAxes(s, axes, k) ==   \* remove the positions in axes (0-based set) from s
  IF k > Len(s) THEN <<>>
  ELSE (IF (k - 1) \in axes THEN <<>> ELSE <<s[k]>>) \o DropAxes(s, axes, k + 1)

SpecInfer(rec) ==
  LET op == rec.op ops == rec.operands IN
  CASE rec.cls = "elementwise" ->
         IF ~BroadcastableAll(Shapes(ops)) THEN Reject
         ELSE LET d == ResultType(IF op = "where" THEN Tail(ops) ELSE ops) IN
              Accept(BShapeAll(Shapes(ops)), ArithType(op, d))
    [] rec.cls = "unary" ->
         LET d == ops[1].dtype IN
         Accept(ops[1].shape,
                CASE op \in {"neg", "pos"} -> d
                  [] op = "abs" -> IF d = "c8" THEN "f4" ELSE IF d = "c16" THEN "f8" ELSE d
                  [] op \in {"isnan", "logical_not"} -> "b1"
                  [] op \in {"real", "imag"} ->
                       IF d = "c8" THEN "f4" ELSE IF d = "c16" THEN "f8" ELSE d
                  [] op = "conj" -> IF d = "b1" THEN "i1" ELSE d
                  [] OTHER -> FloatFor(d))
    [] rec.cls = "astype" -> Accept(ops[1].shape, rec.dtype)
    [] rec.cls = "reduce" ->
         LET s == ops[1].shape nd == Len(s)
             axes == rec.axes        \* sequence of ints (ignored if rec.allaxes)
         IN IF rec.allaxes THEN
               (IF op \in {"amax", "amin"} /\ SizeOf(s) = 0 THEN Reject
                ELSE Accept(<<>>, RedType(op, ops[1].dtype)))
            ELSE IF \E j \in DOMAIN axes : ~AxisOK0(axes[j], nd) THEN Reject
            ELSE IF nd = 0 THEN
                 (IF Len(axes) > 1 THEN Reject ELSE Accept(<<>>, RedType(op, ops[1].dtype)))
            ELSE LET na == [j \in DOMAIN axes |-> NormAxis(axes[j], nd)] IN
                 IF ~AllDistinct(na) THEN Reject
                 ELSE IF op \in {"amax", "amin"}
                         /\ \E j \in DOMAIN na : s[na[j] + 1] = 0 THEN Reject
                 ELSE Accept(DropAxes(s, SeqRange(na), 1), RedType(op, ops[1].dtype))
    [] rec.cls = "stack" ->
         LET s == ops[1].shape nd == Len(s) + 1 IN
         IF \E j \in DOMAIN ops : ops[j].shape # s THEN Reject
         ELSE IF ~AxisOK(rec.axis, nd) THEN Reject
         ELSE Accept(InsertAt(s, NormAxis(rec.axis, nd) + 1, Len(ops)),
                     StrongType(ops, 1))
    [] rec.cls = "concatenate" ->
         LET s == ops[1].shape nd == Len(s) IN
         IF nd = 0 THEN Reject
         ELSE IF ~AxisOK(rec.axis, nd) THEN Reject
         ELSE LET ax == NormAxis(rec.axis, nd) + 1 IN
              IF (\E j \in DOMAIN ops : Len(ops[j].shape) # nd)
                 \/ (\E z \in DOMAIN ops : \E q \in 1..nd :
                        q # ax /\ ops[z].shape[q] # s[q]) THEN Reject
              ELSE Accept([s EXCEPT ![ax] = SumSeq([j \in DOMAIN ops |-> ops[j].shape[ax]])],
                          StrongType(ops, 1))
    [] rec.cls = "roll" ->
         LET s == ops[1].shape nd == Len(s) IN
         IF ~AxisOK(rec.axis, nd) THEN Reject ELSE Accept(s, ops[1].dtype)
    [] rec.cls = "transpose" ->
         LET s == ops[1].shape nd == Len(s) axes == rec.axes IN
         IF Len(axes) # nd \/ \E j \in DOMAIN axes : ~AxisOK(axes[j], nd) THEN Reject
         ELSE LET na == [j \in DOMAIN axes |-> NormAxis(axes[j], nd)] IN
              IF ~AllDistinct(na) THEN Reject
              ELSE Accept([j \in 1..nd |-> s[na[j] + 1]], ops[1].dtype)
    [] rec.cls = "expand_dims" ->
         LET s == ops[1].shape nd == Len(s) + 1 IN
         IF ~AxisOK(rec.axis, nd) THEN Reject
         ELSE Accept(InsertAt(s, NormAxis(rec.axis, nd) + 1, 1), ops[1].dtype)
    [] rec.cls = "squeeze" ->
         LET s == ops[1].shape nd == Len(s) IN
         IF ~AxisOK0(rec.axis, nd) THEN Reject
         ELSE IF nd = 0 THEN Accept(<<>>, ops[1].dtype)
         ELSE IF s[NormAxis(rec.axis, nd) + 1] # 1 THEN Reject
         ELSE Accept(DropAt(s, NormAxis(rec.axis, nd) + 1), ops[1].dtype)
    [] rec.cls = "reshape" ->
         LET s == ops[1].shape ns == rec.newshape
             negs == {j \in DOMAIN ns : ns[j] < 0}
             known == ProdSeq([j \in DOMAIN ns |-> IF ns[j] < 0 THEN 1 ELSE ns[j]])
         \* NumPy treats ANY negative entry as the one inferred dimension
         IN IF Cardinality(negs) > 1 THEN Reject
            ELSE IF negs = {} THEN
                   (IF known = SizeOf(s) THEN Accept(ns, ops[1].dtype) ELSE Reject)
            ELSE IF known = 0 \/ SizeOf(s) % known # 0 THEN Reject
            ELSE Accept([j \in DOMAIN ns |-> IF ns[j] < 0 THEN SizeOf(s) \div known ELSE ns[j]],
                        ops[1].dtype)
    [] rec.cls = "index" ->
         \* basic indexing: rec.idx items int / slice (optionals), at most ndim items
         LET s == ops[1].shape nd == Len(s) items == rec.idx IN
         IF Len(items) > nd THEN Reject
         ELSE IF \E j \in DOMAIN items :
                   items[j].t = "int" /\ ~IntIndexValid(items[j].v, s[j]) THEN Reject
         ELSE IF \E j \in DOMAIN items :
                   items[j].t = "slice" /\ ~IsNone(items[j].step) /\ OptVal(items[j].step) = 0
              THEN Reject
         ELSE LET RECURSIVE Out(_)
                  Out(j) == IF j > nd THEN <<>>
                            ELSE IF j > Len(items) THEN <<s[j]>> \o Out(j + 1)
                            ELSE IF items[j].t = "int" THEN Out(j + 1)
                            ELSE <<SliceLen(items[j].start, items[j].stop,
                                            items[j].step, s[j])>> \o Out(j + 1)
              IN Accept(Out(1), ops[1].dtype)
    [] rec.cls = "broadcast_to" ->
         LET s == ops[1].shape t == rec.shape IN
         IF Len(s) <= Len(t) /\ Broadcastable2(s, t) /\ BShape2(s, t) = t
         THEN Accept(t, ops[1].dtype) ELSE Reject
    [] rec.cls = "matmul" ->
         LET a == ops[1].shape b == ops[2].shape
             d == ResultType(ops) IN
         IF Len(a) = 0 \/ Len(b) = 0 THEN Reject
         ELSE LET a2 == IF Len(a) = 1 THEN <<1>> \o a ELSE a
                  b2 == IF Len(b) = 1 THEN b \o <<1>> ELSE b
                  ba == SubSeq(a2, 1, Len(a2) - 2)
                  bb == SubSeq(b2, 1, Len(b2) - 2)
              IN IF a2[Len(a2)] # b2[Len(b2) - 1] THEN Reject
                 ELSE IF ~Broadcastable2(ba, bb) THEN Reject
                 ELSE Accept(BShape2(ba, bb)
                             \o (IF Len(a) = 1 THEN <<>> ELSE <<a2[Len(a2) - 1]>>)
                             \o (IF Len(b) = 1 THEN <<>> ELSE <<b2[Len(b2)]>>), d)

\* einsum: rec.subs[a] = the index labels (small integers) of operand a,
\* rec.out = the labels of the result (explicit form) or rec.implicit = TRUE
\* (labels occurring exactly once, in ascending order).  A label's extent is
\* the common non-unit length of all its occurrences (length 1 broadcasts).
EinsumInfer(rec) ==
  LET ops == rec.operands subs == rec.subs
      labels == UNION {SeqRange(subs[a]) : a \in DOMAIN subs}
      lens(l) == UNION {{ops[a].shape[j] : j \in {q \in DOMAIN subs[a] : subs[a][q] = l}}
                        : a \in {z \in DOMAIN subs : Len(subs[z]) = Len(ops[z].shape)}}
      ext(l) == IF lens(l) \ {1} = {} THEN 1 ELSE CHOOSE x \in lens(l) \ {1} : TRUE
      count(l) == LET RECURSIVE C(_, _)
                      C(a, j) == IF a > Len(subs) THEN 0
                                 ELSE IF j > Len(subs[a]) THEN C(a + 1, 1)
                                 ELSE (IF subs[a][j] = l THEN 1 ELSE 0) + C(a, j + 1)
                  IN C(1, 1)
      RECURSIVE Asc(_)
      Asc(S) == IF S = {} THEN <<>>
                ELSE LET m == CHOOSE x \in S : \A y \in S : x <= y IN <<m>> \o Asc(S \ {m})
      out == IF rec.implicit THEN Asc({l \in labels : count(l) = 1}) ELSE rec.out
  IN IF \E a \in DOMAIN subs : Len(subs[a]) # Len(ops[a].shape) THEN Reject
     ELSE IF \E l \in labels : Cardinality(lens(l) \ {1}) > 1 THEN Reject
     ELSE IF ~AllDistinct(out) \/ \E j \in DOMAIN out : out[j] \notin labels THEN Reject
     ELSE Accept([j \in DOMAIN out |-> ext(out[j])], ResultType(ops))

Clause(rec) ==
  LET sp == IF rec.cls = "einsum" THEN EinsumInfer(rec) ELSE SpecInfer(rec) IN
  IF rec.np.ok # sp.ok THEN "oracle_accept"
  ELSE IF sp.ok /\ rec.np.shape # sp.shape THEN "oracle_shape"
  ELSE IF sp.ok /\ rec.np.dtype # sp.dtype THEN "oracle_dtype"
  ELSE IF ~sp.ok THEN (IF rec.pt.ok THEN "accepted_invalid" ELSE "ok")
  ELSE IF ~rec.pt.ok THEN "ok"
  ELSE IF rec.pt.shape # sp.shape THEN "shape"
  ELSE IF rec.pt.dtype # sp.dtype THEN "dtype"
  ELSE "ok"

Verdict == PrintT(<<"V", Batch[r].id, Clause(Batch[r])>>)
=============================================================================
