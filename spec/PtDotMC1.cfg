CONSTANTS
  N = 4
  WithFn = TRUE
  TwoParts = FALSE
  Bug = "none"
INIT Init
NEXT Next
INVARIANTS AtEnd Progress
CHECK_DEADLOCK FALSE
