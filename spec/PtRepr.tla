------------------------------- MODULE PtRepr -------------------------------
(***************************************************************************)
(* repr(array) (pytato.stringifier.Reprifier) as a specification (X02 c).  *)
(*                                                                         *)
(* The printable objects of an expression form a DAG S.nodes (children     *)
(* first): kind "node" (arrays, function definitions, calls, dictionaries  *)
(* of named arrays: head = type name, args = the fields shown, by name),   *)
(* "cont" (tuple / dict / set that holds nodes: args keyed by position /   *)
(* key), "atom" (everything else: its text).  A node is TRUNCATABLE        *)
(* (trunc) and most of them add one to the DEPTH of what they contain      *)
(* (bump = 1; a dictionary of named arrays does not).                      *)
(*                                                                         *)
(* The text repr owes the root is the UNFOLDING of the DAG into a term:    *)
(*   Print(k, d) = "(...)"                       if trunc(k) and d > depth *)
(*               = head(k)(key = Print(child, d + bump(k)), ...) otherwise *)
(* so: truncation depth is honoured exactly (an array at depth <= depth is *)
(* printed with every field, one at depth + 1 is the truncation string),   *)
(* and a shared sub-expression is printed wherever it occurs, as deep as   *)
(* its occurrence allows (a cache keyed by the node alone would print the  *)
(* shallow version everywhere: PtReprMC).                                  *)
(* Two-sided: a field whose value is trivial (triv: empty tags, default    *)
(* axes, ...) may be omitted or shown -- all of them or none.              *)
(*                                                                         *)
(* T is the term parsed from the real text, hash-consed by the harness     *)
(* (kinds as above plus "trunc").  Equality of the two terms is decided    *)
(* through structural classes over the combined sequence (PtDot!ClsUpTo),  *)
(* so ladders with 2^40 paths cost 40 x (depth + 2) entries.               *)
(***************************************************************************)
EXTENDS PtDot

RPos(k, d, depth) == (k - 1) * (depth + 2) + d + 1
RMin(a, b) == IF a < b THEN a ELSE b

\* expected entries for all (k, d), d in 0..depth+1; omit: trivial fields left out
ReprEntries(S, depth, omit) ==
  LET N == Len(S.nodes)
      one(k, d) ==
        LET nd == S.nodes[k] IN
        IF nd.trunc /\ d > depth
        THEN [lab |-> <<"trunc", "">>, cl |-> <<>>, oid |-> 0, kids |-> <<>>]
        ELSE LET as == SelectSeq(nd.args, LAMBDA a : ~(omit /\ a.triv)) IN
             [lab |-> <<nd.kind, nd.head>>, cl |-> <<>>, oid |-> 0,
              kids |-> [q \in DOMAIN as |->
                          Edge(RPos(as[q].to, RMin(d + nd.bump, depth + 1), depth),
                               as[q].key, "", FALSE)]]
  IN [i \in 1..(N * (depth + 2)) |->
        one(((i - 1) \div (depth + 2)) + 1, (i - 1) % (depth + 2))]

TermEntries(T, shift) ==
  [i \in DOMAIN T.nodes |->
     [lab |-> <<T.nodes[i].kind, T.nodes[i].head>>, cl |-> <<>>, oid |-> 0,
      kids |-> [q \in DOMAIN T.nodes[i].args |->
                  Edge(T.nodes[i].args[q].to + shift, T.nodes[i].args[q].key, "", FALSE)]]]

ReprEqual(S, T, depth, omit) ==
  LET E == ReprEntries(S, depth, omit)
      n == Len(E)
      c == ClsUpToX(E \o TermEntries(T, n), FALSE, FALSE, n + Len(T.nodes)).cls
  IN c[RPos(S.root, 0, depth)] = c[n + T.root]

TermOK(T) == \A i \in DOMAIN T.nodes : \A q \in DOMAIN T.nodes[i].args : T.nodes[i].args[q].to < i

ReprClause(S, T, depth) ==
  IF T.error # "" THEN T.error
  ELSE IF ~TermOK(T) THEN "term_order"
  ELSE IF \E omit \in BOOLEAN : ReprEqual(S, T, depth, omit) THEN "ok"
  ELSE IF \E omit \in BOOLEAN : \E d \in {depth - 1, depth + 1} \cap Nat :
            ReprEqual(S, T, d, omit)
       THEN "truncation_depth"
  ELSE "repr_mismatch"
=============================================================================
