------------------------------- MODULE PtRepr -------------------------------
EXTENDS Integers, Sequences, FiniteSets, TLC
ReprClause(S, T, depth) == "ok"
=============================================================================
