------------------------------- MODULE PtGraph -------------------------------
(***************************************************************************)
(* What the graph analyses of pytato must answer (DESIGN 3, 4/C20), as     *)
(* functions of a typed DAG g:                                             *)
(*                                                                         *)
(*   g.n                 nodes 1..n; arrays, containers (dictionaries,     *)
(*                       calls) and function definitions, all name spaces  *)
(*   g.ch[v], g.ek[v]    children of v in field order and the kind of the  *)
(*                       field each sits in: operand, shape, index, csr,   *)
(*                       send, binding, entry, container, function,        *)
(*                       returns, newshape, slicebound                     *)
(*   g.ns[v]             0 in the caller's name space, else the function   *)
(*                       definition whose body v belongs to                *)
(*   g.cls[v]            structural class (v == w iff same class)          *)
(*   g.kind[v], g.isarr[v], g.stored[v], g.baz[v], g.dshape[v], g.roots,   *)
(*   g.outs                                                                *)
(*                                                                         *)
(* The graph comes from the reflective walk over dataclass fields          *)
(* (validation use, PtGraphCheck) or is chosen in Init (PtGraphMC, which   *)
(* checks the internal consistency of these definitions over all shapes).  *)
(***************************************************************************)
EXTENDS Integers, Sequences, FiniteSets, TLC

Range(s) == {s[i] : i \in DOMAIN s}
Count(s, x) == Cardinality({i \in DOMAIN s : s[i] = x})
SumOver(S, f(_)) ==
  LET RECURSIVE sm(_)
      sm(T) == IF T = {} THEN 0 ELSE LET x == CHOOSE y \in T : TRUE IN f(x) + sm(T \ {x})
  IN sm(S)

Nodes(g) == 1..g.n
Top(g) == {v \in Nodes(g) : g.ns[v] = 0}
IsFn(g, v) == g.kind[v] = "FunctionDefinition"
IsDict(g, v) == g.kind[v] = "DictOfNamedArrays"

\* fields no analysis is required to look at (see ptverif/mapperharness.py)
Optional(kd) == kd \in {"newshape", "slicebound"}

Pos(g, v) == DOMAIN g.ch[v]
\* number of required, non-function fields of v that hold u
Mult(g, v, u) == Cardinality({p \in Pos(g, v) : g.ch[v][p] = u /\ ~Optional(g.ek[v][p])
                                               /\ g.ek[v][p] # "function"})
\* the same, not counting send payloads (the documented convention: a send
\* holder does not use the data it sends)
MultNoSend(g, v, u) == Cardinality({p \in Pos(g, v) : g.ch[v][p] = u /\ ~Optional(g.ek[v][p])
                                     /\ g.ek[v][p] \notin {"function", "send"}})
EdgeKinds(g, v, u) == {g.ek[v][p] : p \in {q \in Pos(g, v) : g.ch[v][q] = u}}
OptionalChild(g, v, u) == \E p \in Pos(g, v) : g.ch[v][p] = u /\ Optional(g.ek[v][p])
Derived(g, v, u) == u \in Range(g.dshape[v])

\* -- the relations ---------------------------------------------------------
\* direct predecessors with multiplicity: every required field child
PredList(g, v) == [u \in Nodes(g) |-> Mult(g, v, u)]
Preds(g, v) == {u \in Nodes(g) : Mult(g, v, u) > 0}
\* users, the converse
UserList(g, u) == [v \in Nodes(g) |-> Mult(g, v, u)]
Users(g, u) == {v \in Nodes(g) : Mult(g, v, u) > 0}

\* reachability without entering function definitions
RECURSIVE ReachNF(_, _)
ReachNF(g, v) == {v} \cup UNION {ReachNF(g, g.ch[v][p]) :
                                    p \in {q \in Pos(g, v) : g.ek[v][q] # "function"}}
RECURSIVE ReachAll(_, _)
ReachAll(g, v) == {v} \cup UNION {ReachAll(g, g.ch[v][p]) : p \in Pos(g, v)}
\* ... following neither function nor send edges
RECURSIVE ReachNS(_, _)
ReachNS(g, v) == {v} \cup UNION {ReachNS(g, g.ch[v][p]) :
                    p \in {q \in Pos(g, v) : g.ek[v][q] \notin {"function", "send"}
                                             /\ ~Optional(g.ek[v][q])}}

Root(g) == g.roots[1]
Live(g) == ReachAll(g, Root(g))          \* every name space
LiveTop(g) == ReachNF(g, Root(g))        \* the caller's name space

\* a list `order` of nodes is a topological order of the arrays of the
\* caller's name space: each exactly once, after everything it depends on
TopoOK(g, order) ==
  LET arrs == {v \in LiveTop(g) : g.isarr[v]} IN
  /\ Range(order) = arrs
  /\ Len(order) = Cardinality(arrs)
  /\ \A i, j \in DOMAIN order :
        (i # j /\ order[i] \in ReachNF(g, order[j])) => i < j

\* node counts: distinct objects / distinct classes per name space;
\* dictionaries of named arrays are not counted (documented)
Counted(g, S) == {v \in S : ~IsDict(g, v)}
NumNodes(g, S, dups) ==
  IF dups THEN Cardinality(Counted(g, S))
  ELSE Cardinality({<<g.ns[v], g.cls[v]>> : v \in Counted(g, S)})
TypeCount(g, S, dups, kd) ==
  IF dups THEN Cardinality({v \in Counted(g, S) : g.kind[v] = kd})
  ELSE Cardinality({<<g.ns[v], g.cls[v]>> : v \in {w \in Counted(g, S) : g.kind[w] = kd}})
Multiplicity(g, S, c) == Cardinality({v \in Counted(g, S) : g.cls[v] = c})
TagCount(g, S, has) == Cardinality({v \in S : g.isarr[v] /\ has[v]})
CallSites(g, S) == Cardinality({v \in S : g.kind[v] = "Call"})

\* materialised nodes (as classes): inputs, received arrays, arrays bound
\* in calls, stored-tagged arrays and (optionally) outputs -- what the
\* property names; the type-based additions the docstring's "etc." covers
\* (results of CSR products, of loopy and function calls, send payloads,
\* values returned by function definitions) may but need not be present
InputKinds == {"Placeholder", "DataWrapper", "SizeParam"}
BoundArrays(g, S) ==
  UNION {{g.ch[v][p] : p \in {q \in Pos(g, v) : g.ek[v][q] = "binding"}}
         : v \in {w \in S : g.kind[w] \in {"Call", "LoopyCall"}}}
Returned(g, S) ==
  UNION {{g.ch[v][p] : p \in Pos(g, v)} : v \in {w \in S : IsFn(g, w)}}
SentPayloads(g, S) ==
  UNION {{g.ch[v][p] : p \in {q \in Pos(g, v) : g.ek[v][q] = "send"}} : v \in S}
MatMust(g, S, incl) ==
  {g.cls[v] : v \in {w \in S : g.isarr[w] /\ (g.kind[w] \in InputKinds
                                               \/ g.kind[w] = "DistributedRecv"
                                               \/ g.stored[w])}}
  \cup {g.cls[v] : v \in {w \in BoundArrays(g, S) : g.isarr[w]}}
  \cup (IF incl THEN {g.cls[v] : v \in Range(g.outs)} ELSE {})
MatMay(g, S, incl) ==
  MatMust(g, S, incl)
  \cup {g.cls[v] : v \in {w \in S : g.kind[w] \in {"CSRMatmul", "LoopyCallResult",
                                                    "NamedCallResult"}}}
  \cup {g.cls[v] : v \in SentPayloads(g, S) \cup Returned(g, S)}

-----------------------------------------------------------------------------
(* Internal consistency of the definitions (checked by TLC in PtGraphMC)   *)

ConverseOK(g) == \A u, v \in Nodes(g) : UserList(g, u)[v] = PredList(g, v)[u]
SetsOK(g) == \A u, v \in Nodes(g) : (v \in Users(g, u)) <=> (u \in Preds(g, v))
\* the number of edges, counted from either side
EdgesAddUp(g) ==
  SumOver(Nodes(g), LAMBDA v : SumOver(Nodes(g), LAMBDA u : PredList(g, v)[u]))
  = SumOver(Nodes(g), LAMBDA u : SumOver(Nodes(g), LAMBDA v : UserList(g, u)[v]))
\* type counts add up to the node count; multiplicities add up to it too
CountsAddUp(g, S) ==
  /\ SumOver({g.kind[v] : v \in S}, LAMBDA kd : TypeCount(g, S, TRUE, kd)) = NumNodes(g, S, TRUE)
  /\ SumOver({g.kind[v] : v \in S}, LAMBDA kd : TypeCount(g, S, FALSE, kd)) >= NumNodes(g, S, FALSE)
  /\ SumOver({g.cls[v] : v \in Counted(g, S)}, LAMBDA c : Multiplicity(g, S, c))
       = NumNodes(g, S, TRUE)
  /\ NumNodes(g, S, FALSE) <= NumNodes(g, S, TRUE)
\* the post-order numbering of an instance is a topological order
PostOrderIsTopo(g) ==
  LET arrs == {v \in LiveTop(g) : g.isarr[v]}
      RECURSIVE lst(_)
      lst(k) == IF k = 0 THEN <<>> ELSE IF k \in arrs THEN Append(lst(k - 1), k) ELSE lst(k - 1)
  IN TopoOK(g, lst(g.n))
MatOK(g, S) == /\ MatMust(g, S, FALSE) \subseteq MatMust(g, S, TRUE)
               /\ MatMust(g, S, TRUE) \subseteq MatMay(g, S, TRUE)
=============================================================================
