CONSTANTS
  N = 3
  T = 2
  WithMay = TRUE
  WithRedn = FALSE
INIT InitAll
NEXT Stutter
INVARIANTS Emit
CHECK_DEADLOCK FALSE
