CONSTANTS
  N = 4
  WithFn = FALSE
  TwoParts = FALSE
  Bug = "none"
INIT Init
NEXT Stutter
INVARIANTS EmitShape
CHECK_DEADLOCK FALSE
