CONSTANT AllPairs = FALSE
INIT Init
NEXT Next
INVARIANT ModelOK
INVARIANT Emit
CHECK_DEADLOCK FALSE
