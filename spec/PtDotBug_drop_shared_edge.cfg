CONSTANTS
  N = 3
  WithFn = TRUE
  TwoParts = TRUE
  Bug = "drop_shared_edge"
INIT Init
NEXT Next
INVARIANTS RefFaithful
CHECK_DEADLOCK FALSE
