------------------------------ MODULE PtMapper ------------------------------
(***************************************************************************)
(* The cached traversal of pytato/transform/__init__.py as a state machine *)
(* (DESIGN 3, 4/C13, A.2).                                                 *)
(*                                                                         *)
(* One behaviour = one call `mapper(root)` on one DAG.  The DAG, the       *)
(* congruence marking structurally equal duplicates, the per-node          *)
(* behaviour of the map method and the mapper variant are chosen in Init   *)
(* and never change (record g).  One action per critical section of        *)
(* CachedMapper.rec / CachedWalkMapper.rec:                                *)
(*                                                                         *)
(*   Enter   rec(n): key not cached -> the map method of n is invoked      *)
(*   Hit     rec(n): key cached (and, with err_on_collision, cached for    *)
(*           this very object) -> cached result returned                   *)
(*   Collide rec(n): key cached for a DIFFERENT object and                 *)
(*           err_on_collision -> CacheCollisionError (error state)         *)
(*   Return  the map method of the top frame has visited all children:     *)
(*           replace_if_different (result IS the input when every child    *)
(*           result is the child), then CachedMapperCache.add /            *)
(*           TransformMapperCache.add (first-seen equal result wins;       *)
(*           created-duplicate check)                                      *)
(*                                                                         *)
(* Objects: input nodes are 1..N, objects created by the mapper are N+1,   *)
(* N+2, ... in creation order.  ocl[o] is the structural class of object   *)
(* o (two objects are == iff they have the same class); the class of an    *)
(* input node is its representative g.rep[n]; sig[c] is the signature      *)
(* <<label, classes of children>> of class c, so a rebuilt node gets the   *)
(* class of whatever existing object it is structurally equal to.          *)
(*                                                                         *)
(* The module is used three ways (DESIGN 2.1):                             *)
(*   M  model checking over all DAG shapes (MC* configurations)            *)
(*   G  with Emit = TRUE every terminal state prints the instance and the  *)
(*      model's final state as one JSON line (tag "MAP")                   *)
(*   E  PtMapperTrace EXTENDS this module and replays recorded events of   *)
(*      the real mappers through the same actions                          *)
(***************************************************************************)
EXTENDS Integers, Sequences, FiniteSets, TLC, Json

CONSTANTS
  MaxN,       \* DAGs with 1..MaxN nodes
  MaxAr,      \* out-degree <= MaxAr (a child may repeat: x + x)
  Families,   \* subset of {"transform", "combine", "walk"}
  Keys,       \* subset of {"expr", "id"}: get_cache_key returns expr / id(expr)
  Extras,     \* subset of BOOLEAN: the key also contains an extra argument
  Cacheds,    \* subset of BOOLEAN: FALSE = plain Mapper / WalkMapper (no cache)
  ErrCols,    \* subset of BOOLEAN: err_on_collision
  ErrDups,    \* subset of BOOLEAN: err_on_created_duplicate
  Dups,       \* allow structurally equal duplicates
  ChgSet,     \* map-method behaviours (transform only), subset of 0..2:
              \*   0 faithful copy (replace_if_different), 1 returns a changed
              \*   node (e.g. re-tagged), 2 returns a gratuitous equal copy
  AnyOrder,   \* children are visited in any order / in field order
  Emit        \* print terminal states (generator use)

VARIABLES
  g,        \* the instance [n, ch, rep, cls, need, chg, ex, v]
  stack,    \* frames [node, x, pos, done, kids]; top = last
  cache,    \* key -> result            (_input_key_to_result / visited set)
  cexpr,    \* key -> node              (_input_key_to_expr)
  pool,     \* result class -> object   (_result_to_cached_result)
  ocl,      \* object -> structural class
  sig,      \* class -> <<label, child classes>>
  calls,    \* node -> number of invocations of its map method
  kcalls,   \* key -> number of Enter with that key
  uses,     \* history: set of <<key, result>> ever handed to a caller
  made,     \* history: new object -> the node whose map method created it
  err,      \* "none" | "collision" | "dup"
  started   \* the top-level call has been issued

vars == <<g, stack, cache, cexpr, pool, ocl, sig, calls, kcalls, uses, made, err, started>>

-----------------------------------------------------------------------------
(* The space of instances *)

\* mapper variants: CachedWalkMapper has no collision detection, only
\* TransformMapperCache checks for created duplicates, and an uncached
\* mapper has neither
Variants ==
  {v \in [family : Families, key : Keys, extra : Extras, cached : Cacheds,
          errcol : ErrCols, errdup : ErrDups] :
     /\ v.family = "walk" => ~v.errcol
     /\ v.family # "transform" => ~v.errdup
     /\ ~v.cached => (~v.errcol /\ ~v.errdup /\ v.key = "id" /\ v.family # "transform")}

SeqsUpTo(S, k) == UNION {[1..j -> S] : j \in 0..k}

RECURSIVE Dags(_)
Dags(n) == IF n = 0 THEN {<<>>}
           ELSE {Append(d, s) : d \in Dags(n - 1), s \in SeqsUpTo(1..(n - 1), MaxAr)}

InSeq(x, s) == \E i \in 1..Len(s) : s[i] = x

\* nodes in depth-first post-order from node n (children in field order)
RECURSIVE Visit(_, _, _), VisitKids(_, _, _, _)
VisitKids(ch, n, i, acc) == IF i > Len(ch[n]) THEN acc
                            ELSE VisitKids(ch, n, i + 1, Visit(ch, ch[n][i], acc))
Visit(ch, n, acc) == IF InSeq(n, acc) THEN acc ELSE Append(VisitKids(ch, n, 1, acc), n)

\* Canonical numbering: the post-order from the root (= last node) is 1..N.
\* Every rooted ordered DAG has exactly one such numbering, so no two
\* enumerated instances are isomorphic, and every node is reachable.
Canon(ch) == Visit(ch, Len(ch), <<>>) = [i \in 1..Len(ch) |-> i]
CanonDags(n) == {ch \in Dags(n) : Canon(ch)}

\* Congruences: rep[n] <= n is the representative of n's class; two nodes may
\* be equal only if they have equally many children and these are pairwise
\* equal.  Nodes in different classes differ in their label (= the class).
RECURSIVE Reps(_, _)
Reps(ch, n) ==
  IF n = 0 THEN {<<>>}
  ELSE UNION { {Append(r, m) : m \in {n} \cup
                  {m \in 1..(n - 1) : /\ r[m] = m
                                      /\ Len(ch[m]) = Len(ch[n])
                                      /\ \A i \in 1..Len(ch[n]) : r[ch[m][i]] = r[ch[n][i]]}}
               : r \in Reps(ch, n - 1) }
RepChoices(ch) == IF Dups THEN Reps(ch, Len(ch)) ELSE {[i \in 1..Len(ch) |-> i]}

\* behaviour of the map method: a function of the node's structure
ChgChoices(ch, rep, v) ==
  IF v.family = "transform"
  THEN {c \in [1..Len(ch) -> ChgSet] : \A i \in 1..Len(ch) : c[i] = c[rep[i]]}
  ELSE {[i \in 1..Len(ch) |-> 0]}

\* extra argument passed along edge (n, p): incoming extra + ex[n][p] mod 2
RECURSIVE ExSeqs(_, _)
ExSeqs(ch, n) == IF n = 0 THEN {<<>>}
                 ELSE {Append(e, s) : e \in ExSeqs(ch, n - 1), s \in [1..Len(ch[n]) -> {0, 1}]}
ExChoices(ch, rep, v) ==
  IF v.extra THEN {e \in ExSeqs(ch, Len(ch)) : \A i \in 1..Len(ch) : e[i] = e[rep[i]]}
  ELSE {[i \in 1..Len(ch) |-> [p \in 1..Len(ch[i]) |-> 0]]}

-----------------------------------------------------------------------------
(* Derived *)

N == g.n
Ch == g.ch
Rep == g.rep
V == g.v
Nodes == 1..N
Root == N

KeyOf(n, x) == <<IF V.key = "id" THEN n ELSE Rep[n], IF V.extra THEN x ELSE 0>>

RECURSIVE ReachFrom(_, _)
ReachFrom(ch, n) == {n} \cup UNION {ReachFrom(ch, ch[n][i]) : i \in 1..Len(ch[n])}

\* number of paths from the root to n (what an uncached mapper pays)
RECURSIVE PathsTo(_, _)
PathsTo(m, n) == IF m = n THEN 1
                 ELSE LET F[i \in 0..Len(Ch[m])] ==
                            IF i = 0 THEN 0 ELSE F[i - 1] + PathsTo(Ch[m][i], n)
                      IN F[Len(Ch[m])]

HasDups == \E n \in Nodes : Rep[n] # n
SetMax(S) == CHOOSE x \in S : \A y \in S : y <= x
Range(f) == {f[x] : x \in DOMAIN f}

Top == stack[Len(stack)]
Done == started /\ stack = <<>> /\ err = "none"
Terminal == Done \/ err # "none"

\* hand result r to position p of the (new) top frame; p = 0: top-level call
\* or a visit that corresponds to no field of the caller
Mark(st, p, r) == IF st = <<>> \/ p = 0 THEN st
                  ELSE [st EXCEPT ![Len(st)].done = @ \cup {p},
                                  ![Len(st)].kids[p] = r]

-----------------------------------------------------------------------------
(* Actions; all take the visited node n, the extra argument x and the      *)
(* position p of the caller's frame the visit belongs to.                  *)

Enter(n, x, p) ==
  /\ err = "none"
  /\ ~(V.cached /\ KeyOf(n, x) \in DOMAIN cache)
  /\ stack' = Append(stack, [node |-> n, x |-> x, pos |-> p, done |-> {},
                             kids |-> [i \in 1..Len(Ch[n]) |-> 0]])
  /\ calls' = [calls EXCEPT ![n] = @ + 1]
  /\ kcalls' = IF KeyOf(n, x) \in DOMAIN kcalls
               THEN [kcalls EXCEPT ![KeyOf(n, x)] = @ + 1]
               ELSE kcalls @@ (KeyOf(n, x) :> 1)
  /\ started' = TRUE
  /\ UNCHANGED <<g, cache, cexpr, pool, ocl, sig, uses, made, err>>

Hit(n, x, p) ==
  /\ err = "none" /\ V.cached
  /\ KeyOf(n, x) \in DOMAIN cache
  /\ V.errcol => cexpr[KeyOf(n, x)] = n
  /\ stack' = Mark(stack, p, cache[KeyOf(n, x)])
  /\ uses' = uses \cup {<<KeyOf(n, x), cache[KeyOf(n, x)]>>}
  /\ started' = TRUE
  /\ UNCHANGED <<g, cache, cexpr, pool, ocl, sig, calls, kcalls, made, err>>

Collide(n, x, p) ==
  /\ err = "none" /\ V.cached /\ V.errcol
  /\ KeyOf(n, x) \in DOMAIN cache
  /\ cexpr[KeyOf(n, x)] # n
  /\ err' = "collision"
  /\ started' = TRUE
  /\ UNCHANGED <<g, stack, cache, cexpr, pool, ocl, sig, calls, kcalls, uses, made>>

\* positions of the top frame whose visit is required before it may return
\* (all of them, unless the instance carries documented exemptions)
Need(n) == g.need[n]
AllDone(f) == Need(f.node) \subseteq f.done

\* replace_if_different: every visited child was mapped to itself
Same(f) == \A i \in f.done : f.kids[i] = Ch[f.node][i]

\* What the model predicts for the top frame f of a transform mapper: the
\* object the map method returns (raw), its class and signature
NextObj == SetMax(DOMAIN ocl \cup {N}) + 1
NextCls == SetMax(DOMAIN sig \cup {2 * MaxN}) + 1
Predict(f) ==
  LET n    == f.node
      mode == g.chg[n]
      raw  == IF Same(f) /\ mode = 0 THEN n ELSE NextObj
      s    == <<IF mode = 1 THEN ocl[n] + MaxN ELSE ocl[n],
                [i \in 1..Len(Ch[n]) |-> ocl[f.kids[i]]]>>
      cl   == IF raw = n THEN ocl[n]
              ELSE IF \E c \in DOMAIN sig : sig[c] = s
                   THEN CHOOSE c \in DOMAIN sig : sig[c] = s
                   ELSE NextCls
  IN [raw |-> raw, s |-> s, cl |-> cl]

\* the cache update common to all families
Store(f, res) ==
  /\ cache' = (KeyOf(f.node, f.x) :> res) @@ cache
  /\ cexpr' = (KeyOf(f.node, f.x) :> f.node) @@ cexpr
  /\ stack' = Mark(SubSeq(stack, 1, Len(stack) - 1), f.pos, res)
  /\ uses' = uses \cup {<<KeyOf(f.node, f.x), res>>}

\* TransformMapperCache.add applied to the object `raw` (of class rawcl) that
\* the map method of the top frame returned
InPool(rawcl) == rawcl \in DOMAIN pool
Stored(raw, rawcl) == IF InPool(rawcl) THEN pool[rawcl] ELSE raw
\* _is_mapper_created_duplicate: a new object, equal to the input, all of
\* whose predecessors are identical to the input's
\* (fsame: the function definitions the node refers to, which are not nodes
\* of this name space, are identical too; TRUE where there are none)
IsCreatedDup(f, raw, rawcl, fsame) ==
  ~InPool(rawcl) /\ raw # f.node /\ rawcl = ocl[f.node] /\ Same(f) /\ fsame

ReturnT(raw, rawcl, rawsig, fsame) ==
  /\ err = "none" /\ stack # <<>> /\ V.family = "transform"
  /\ AllDone(Top)
  /\ LET f == Top IN
     IF V.errdup /\ IsCreatedDup(f, raw, rawcl, fsame)
     THEN /\ err' = "dup"
          /\ UNCHANGED <<g, stack, cache, cexpr, pool, ocl, sig, calls, kcalls, uses, made, started>>
     ELSE /\ Store(f, Stored(raw, rawcl))
          /\ pool' = IF InPool(rawcl) THEN pool ELSE (rawcl :> raw) @@ pool
          /\ ocl' = IF InPool(rawcl) \/ raw \in DOMAIN ocl THEN ocl ELSE (raw :> rawcl) @@ ocl
          /\ sig' = IF rawcl \in DOMAIN sig THEN sig ELSE (rawcl :> rawsig) @@ sig
          /\ made' = IF InPool(rawcl) \/ raw \in DOMAIN ocl THEN made ELSE (raw :> f.node) @@ made
          /\ UNCHANGED <<g, calls, kcalls, err, started>>

ReturnTransform == stack # <<>> /\ LET pr == Predict(Top) IN ReturnT(pr.raw, pr.cl, pr.s, TRUE)

\* combine: the result is the set of classes of the nodes below (what
\* DependencyMapper computes); walk: no result
ReturnO(res) ==
  /\ err = "none" /\ stack # <<>> /\ V.family # "transform"
  /\ AllDone(Top)
  /\ Store(Top, res)
  /\ UNCHANGED <<g, pool, ocl, sig, calls, kcalls, made, err, started>>

ReturnOther ==
  /\ stack # <<>>
  /\ LET f == Top
     IN ReturnO(IF V.family = "walk" THEN {}
                ELSE {Rep[f.node]} \cup UNION {f.kids[i] : i \in 1..Len(Ch[f.node])})

\* the visit the top frame (or the user) issues next
Undone(f) == (1..Len(Ch[f.node])) \ f.done
NextPos(f) == IF AnyOrder THEN Undone(f)
              ELSE IF Undone(f) = {} THEN {}
                   ELSE {CHOOSE p \in Undone(f) : \A q \in Undone(f) : p <= q}

Visit1(n, x, p) == Enter(n, x, p) \/ Hit(n, x, p) \/ Collide(n, x, p)

Next ==
  \/ ~started /\ Visit1(Root, 0, 0)
  \/ /\ stack # <<>>
     /\ \E p \in NextPos(Top) :
          Visit1(Ch[Top.node][p], (Top.x + g.ex[Top.node][p]) % 2, p)
  \/ ReturnTransform
  \/ ReturnOther
  \/ Terminal /\ UNCHANGED vars

\* cls: class numbers of the input nodes (in model checking the
\* representative itself); need: positions that must be visited
InitFor(n, ch, rep, cls, need, chg, ex, v) ==
  /\ g = [n |-> n, ch |-> ch, rep |-> rep, cls |-> cls, need |-> need,
          chg |-> chg, ex |-> ex, v |-> v]
  /\ stack = <<>> /\ cache = <<>> /\ cexpr = <<>> /\ pool = <<>>
  /\ ocl = [i \in 1..n |-> cls[i]]
  /\ sig = [c \in {rep[i] : i \in 1..n} |->
              <<c, [i \in 1..Len(ch[c]) |-> rep[ch[c][i]]]>>]
  /\ calls = [i \in 1..n |-> 0]
  /\ kcalls = <<>>
  /\ uses = {}
  /\ made = <<>>
  /\ err = "none"
  /\ started = FALSE

Init ==
  \E n \in 1..MaxN : \E ch \in CanonDags(n) : \E rep \in RepChoices(ch) :
  \E v \in Variants : \E chg \in ChgChoices(ch, rep, v) : \E ex \in ExChoices(ch, rep, v) :
     InitFor(n, ch, rep, rep, [i \in 1..n |-> 1..Len(ch[i])], chg, ex, v)

Spec == Init /\ [][Next]_vars

-----------------------------------------------------------------------------
(* Invariants *)

TypeOK ==
  /\ err \in {"none", "collision", "dup"}
  /\ \A i \in 1..Len(stack) : stack[i].node \in Nodes /\ stack[i].done \subseteq 1..Len(Ch[stack[i].node])
  /\ DOMAIN cache = DOMAIN cexpr
  /\ Len(stack) <= N            \* the stack is a path of the DAG

\* the map method runs at most once per key; with the identity key at most
\* once per node; with the structural key exactly once per class once done
OncePerKey ==
  V.cached =>
    /\ \A k \in DOMAIN kcalls : kcalls[k] <= 1
    /\ ~V.extra => \A c \in Nodes :
          LET tot[i \in 0..N] == IF i = 0 THEN 0
                                 ELSE tot[i - 1] + (IF KeyOf(i, 0) = KeyOf(c, 0) THEN calls[i] ELSE 0)
          IN tot[N] <= 1 /\ (Done => tot[N] = 1)

\* an uncached mapper pays one invocation per path (the documented
\* "might visit a node multiple times")
UncachedCost == (~V.cached /\ Done /\ ~V.extra) => \A n \in Nodes : calls[n] = PathsTo(Root, n)

\* everything the root depends on has been mapped when the call returns
AllChildrenReached ==
  Done => \A n \in ReachFrom(Ch, Root) :
             IF V.cached THEN \E x \in {0, 1} : KeyOf(n, x) \in DOMAIN cache
             ELSE calls[n] >= 1

\* every use of one key got one and the same result object
SharedMapsToOne == \A u1, u2 \in uses : u1[1] = u2[1] => u1[2] = u2[2]

AllFaithful == \A n \in Nodes : g.chg[n] = 0

\* a faithful transformation of a duplicate-free graph returns its argument
\* itself, for every node; with duplicates present and merged, the root is
\* rebuilt
IdentityWhenUnchanged ==
  (Done /\ V.family = "transform" /\ V.cached /\ AllFaithful) =>
    /\ ~HasDups => /\ \A k \in DOMAIN cache : cache[k] = cexpr[k]
                   /\ DOMAIN ocl = Nodes
    /\ (HasDups /\ ~V.extra) => cache[KeyOf(Root, 0)] # Root

\* equal results are one object (first seen wins), so a transformation that
\* copies or re-labels never yields more distinct nodes than it was given
ResultsDeduplicated ==
  V.family = "transform" =>
    \A k1, k2 \in DOMAIN cache : ocl[cache[k1]] = ocl[cache[k2]] => cache[k1] = cache[k2]

NoMoreNodesThanGiven ==
  (V.family = "transform" /\ V.cached /\ ~V.extra) =>
     Cardinality(Range(cache)) <= Cardinality({Rep[n] : n \in Nodes})

\* a key shared by two distinct objects never goes unnoticed: if the call
\* completes under err_on_collision, all reachable nodes have distinct keys
CollisionReported ==
  /\ (V.cached /\ V.errcol /\ Done /\ ~V.extra) =>
        \A a, b \in Nodes : a # b => KeyOf(a, 0) # KeyOf(b, 0)
  /\ (err = "collision") => V.errcol /\ (V.key = "expr") /\ HasDups

\* a gratuitous equal copy is reported when err_on_created_duplicate: no
\* object that a map method created (and the cache kept) is equal to the node
\* it was created for while all of that node's children were mapped to
\* themselves.  (An unchanged node may still be REPLACED by an equal object
\* that was created earlier for another node -- first seen wins.)
DuplicateReported ==
  /\ (V.family = "transform" /\ V.errdup /\ ~V.extra) =>
        \A o \in DOMAIN made :
           LET n == made[o] IN
           ~(/\ ocl[o] = ocl[n]
             /\ \A i \in 1..Len(Ch[n]) :
                   /\ KeyOf(Ch[n][i], 0) \in DOMAIN cache
                   /\ cache[KeyOf(Ch[n][i], 0)] = Ch[n][i])
  /\ (err = "dup") => V.errdup /\ \E n \in Nodes : g.chg[n] = 2

\* combine: the result at the root is the set of classes of all nodes
CombineComplete ==
  (Done /\ V.family = "combine" /\ V.cached) =>
      cache[KeyOf(Root, 0)] = {Rep[n] : n \in Nodes}

-----------------------------------------------------------------------------
(* Generator use: one JSON line per terminal state *)

ResultOf(n) ==
  IF V.family # "transform" THEN 0
  ELSE IF \E x \in {0, 1} : KeyOf(n, x) \in DOMAIN cache
       THEN cache[CHOOSE k \in {KeyOf(n, 0), KeyOf(n, 1)} : k \in DOMAIN cache]
       ELSE 0

Final ==
  [n |-> N, ch |-> Ch, rep |-> Rep, chg |-> g.chg, ex |-> g.ex,
   family |-> V.family, key |-> V.key, extra |-> V.extra, cached |-> V.cached,
   errcol |-> V.errcol, errdup |-> V.errdup,
   err |-> err, calls |-> calls,
   result |-> [i \in Nodes |-> ResultOf(i)],
   rclass |-> [i \in Nodes |-> IF ResultOf(i) = 0 THEN 0 ELSE ocl[ResultOf(i)]],
   nobjs |-> Cardinality(DOMAIN ocl) - N]

EmitFinal == (Emit /\ Terminal) => PrintT(<<"MAP", ToJson(Final)>>)

=============================================================================
