------------------------------- MODULE PtAxes -------------------------------
(***************************************************************************)
(* Axis-tag unification (pytato.unify_axes_tags) as a specification.       *)
(*                                                                         *)
(* Part 1  propagation on an abstract equation graph: vertices are AXIS    *)
(*         VARIABLES (one per array axis, one per reduction descriptor),   *)
(*         edges are axis equations, some array axes are IGNORED           *)
(*         (AxisIgnoredForPropagationTag), every vertex carries a set of   *)
(*         tags.  The specified result is the LEAST assignment that        *)
(*         contains the given one and is equal across every equation       *)
(*         between two non-ignored vertices: a tag reaches exactly the     *)
(*         vertices connected to one of its sources by a path that         *)
(*         contains no ignored vertex (the documentation: an ignored axis  *)
(*         "effectively removes an edge from the undirected graph whose    *)
(*         edges represent propagation pathways" -- all its edges).        *)
(*         Tags are NOT vertices: two axes that both carry tag B are not   *)
(*         related by that.                                                *)
(* Part 2  the axis equations of every node kind, as rules on the node's   *)
(*         parameters (never on pytato's lowering code).  Two rule sets:   *)
(*         MUST (every reading of "straight-through axis" yields the       *)
(*         equation) and MAY (some defensible reading does).  A result R   *)
(*         is allowed iff  closure(MUST) <= R <= closure(MUST + MAY).      *)
(* Part 3  models of two observed DEVIATIONS of the implementation (tag    *)
(*         variables as vertices of the propagation graph; einsum          *)
(*         reduction descriptors fed from broadcast operand axes).  They   *)
(*         are not part of the specification: they only give a failing     *)
(*         clause a more precise name.                                     *)
(*                                                                         *)
(* PtAxesMC model-checks part 1 over all small instances and generates     *)
(* adversarial instances; PtAxesCheck judges records of real runs.         *)
(***************************************************************************)
EXTENDS Integers, Sequences, FiniteSets, TLC

Range(s) == {s[i] : i \in DOMAIN s}

(***************************************************************************)
(* Part 1: propagation                                                     *)
(***************************************************************************)
\* E: a set of pairs <<u, v>> (undirected).  Neighbours of the set S.
Nbrs(E, S) == {e[2] : e \in {f \in E : f[1] \in S}} \cup
              {e[1] : e \in {f \in E : f[2] \in S}}

RECURSIVE Grow(_, _, _)
Grow(E, Blk, S) == LET S2 == S \cup Nbrs(E, S \ Blk)
                   IN IF S2 = S THEN S ELSE Grow(E, Blk, S2)

\* vertices connected to a source by a path without any blocked vertex
\* (sources and targets included: a blocked vertex neither emits nor receives)
Reach(E, Blk, Src) == Grow(E, Blk, Src \ Blk) \ Blk

\* src[v]: the tags vertex v is a source of; PT: the tags that propagate
Closure(Vars, E, Blk, src, PT) ==
  LET R == TLCEval([t \in PT |-> Reach(E, Blk, {s \in Vars : t \in src[s]})])
  IN TLCEval([v \in Vars |-> {t \in PT : v \in R[t]}])

(***************************************************************************)
(* Part 2: axis equations per node kind                                    *)
(*                                                                         *)
(* A graph g is a record with g.nodes a sequence of node records (children *)
(* are earlier positions).  Common fields: kind, shape (sequence of axis   *)
(* lengths), ax (per axis: sequence of tag names), rdn (per reduction      *)
(* descriptor: sequence of tag names).  Axis i (0-based) of node p is the  *)
(* variable AV(p, i), reduction descriptor j (0-based) is RV(p, j).        *)
(***************************************************************************)
AV(p, i) == p * 64 + i
RV(p, j) == p * 64 + 32 + j
IsRV(v)  == (v % 64) >= 32
NodeOf(v) == v \div 64

\* An axis length is a natural number; a length >= Symbolic stands for a size
\* parameter (equal codes = the same parameter).  The rules only ask whether
\* two lengths are equal and whether a length is 0 or 1.
Symbolic == 100000
NDim(g, p) == Len(g.nodes[p].shape)
Dim(g, p, i) == g.nodes[p].shape[i + 1]          \* i 0-based
Axes(g, p) == 0..(NDim(g, p) - 1)

\* MUST when the common length is not 1, MAY when it is 1: where operands may
\* be broadcast, a length-1 axis meeting a length-1 axis can be read either as
\* elementwise or as a (degenerate) broadcast
EqIf(must, len, pair) == IF (len # 1) = must THEN {pair} ELSE {}

\* ---- stack: every operand axis passes through; the new axis has no partner
StackEq(g, p) ==
  LET n == g.nodes[p] IN
  {<<AV(n.arrays[k], j), AV(p, IF j < n.axis THEN j ELSE j + 1)>> :
      k \in 1..Len(n.arrays), j \in 0..(NDim(g, p) - 2)}

\* ---- concatenate: the other axes pass through.  The concatenation axis of
\* an operand is unchanged only when all other operands are empty along it
\* (equal lengths): MAY
ConcatMust(g, p) ==
  LET n == g.nodes[p] IN
  {<<AV(n.arrays[k], j), AV(p, j)>> : k \in 1..Len(n.arrays), j \in Axes(g, p) \ {n.axis}}
ConcatMay(g, p) ==
  LET n == g.nodes[p] IN
  {<<AV(n.arrays[k], n.axis), AV(p, n.axis)>> :
      k \in {k \in 1..Len(n.arrays) : Dim(g, n.arrays[k], n.axis) = Dim(g, p, n.axis)}}

\* ---- roll: the other axes pass through; the rolled axis is permuted, unless
\* the shift is a multiple of its length (identity): MAY
RollMust(g, p) ==
  LET n == g.nodes[p] IN {<<AV(n.a, j), AV(p, j)>> : j \in Axes(g, p) \ {n.axis}}
RollMay(g, p) ==
  LET n == g.nodes[p] len == Dim(g, p, n.axis) IN
  IF len = 0 \/ (len > 0 /\ len < Symbolic /\ n.shift % len = 0)
  THEN {<<AV(n.a, n.axis), AV(p, n.axis)>>}
  ELSE {}

\* ---- transpose: result axis i is operand axis perm[i]
PermEq(g, p) ==
  LET n == g.nodes[p] IN {<<AV(n.a, n.perm[i + 1]), AV(p, i)>> : i \in Axes(g, p)}

\* ---- reshape: nothing (documented), except a reshape created by
\* expand_dims (n.expand = <<new_dims>>): the old axes keep their order
ReshapeEq(g, p) ==
  LET n == g.nodes[p] IN
  IF Len(n.expand) = 0 THEN {}
  ELSE LET new == Range(n.expand[1]) IN
       {<<AV(n.a, i - Cardinality({d \in new : d < i})), AV(p, i)>> : i \in Axes(g, p) \ new}

\* ---- indexing (NumPy's rules).  Item k addresses operand axis k-1.
\* int: the axis disappears.  nslice (normalised start/stop/step): a result
\* axis; straight-through iff the slice is the whole axis in order.
\* arr: an index array.  With index arrays ("advanced"), integers count as
\* 0-d index arrays; the broadcast index shape B takes the place of the
\* advanced items if they are adjacent, else it comes first.
IsAdv(it) == it.t \in {"arr", "int"}
IsFull(it, len) == it.t = "nslice" /\ it.start = 0 /\ it.stop = len /\ it.step = 1
NSlicesBefore(idx, k) == Cardinality({q \in 1..(k - 1) : idx[q].t = "nslice"})
CeilDiv(a, b) == (a + b - 1) \div b                  \* a >= 0, b > 0
SliceLength(it) == IF it.step > 0
                   THEN (IF it.stop > it.start THEN CeilDiv(it.stop - it.start, it.step) ELSE 0)
                   ELSE (IF it.start > it.stop THEN CeilDiv(it.start - it.stop, 0 - it.step) ELSE 0)

IndexInfo(g, p) ==
  LET n == g.nodes[p]
      idx == n.idx
      arrs == {k \in DOMAIN idx : idx[k].t = "arr"}
      advs == {k \in DOMAIN idx : IsAdv(idx[k])}
      advanced == arrs # {}
      first == CHOOSE k \in advs : \A q \in advs : k <= q
      last == CHOOSE k \in advs : \A q \in advs : k >= q
      contiguous == \A k \in first..last : k \in advs
      ishape(k) == g.nodes[idx[k].n].shape
      nb == IF arrs = {} THEN 0
            ELSE LET k == CHOOSE k \in arrs : \A q \in arrs : Len(ishape(k)) >= Len(ishape(q))
                 IN Len(ishape(k))
      \* aligned lengths at block axis i (1-based)
      lens(i) == {ishape(k)[i - (nb - Len(ishape(k)))] :
                     k \in {k \in arrs : i > nb - Len(ishape(k))}}
      bdim(i) == IF lens(i) \ {1} = {} THEN 1 ELSE CHOOSE x \in lens(i) \ {1} : TRUE
      bshape == [i \in 1..nb |-> bdim(i)]
      \* 0-based result axis of the first block axis, and of slice item k
      blockAt == IF ~advanced THEN 0 ELSE IF contiguous THEN NSlicesBefore(idx, first) ELSE 0
      sliceAt(k) == IF ~advanced THEN NSlicesBefore(idx, k)
                    ELSE IF contiguous THEN NSlicesBefore(idx, k) + (IF k > last THEN nb ELSE 0)
                    ELSE nb + NSlicesBefore(idx, k)
  IN [advanced |-> advanced, arrs |-> arrs, nb |-> nb, bshape |-> bshape,
      blockAt |-> blockAt,
      sliceAt |-> [k \in DOMAIN idx |-> sliceAt(k)]]

\* the result shape the rules above imply (checked against the exported shape:
\* a mismatch means the specification misreads the node -- a machinery error)
IndexShapeOK(g, p) ==
  LET n == g.nodes[p] idx == n.idx info == IndexInfo(g, p)
      sl == {k \in DOMAIN idx : idx[k].t = "nslice"}
      nres == Cardinality(sl) + (IF info.advanced THEN info.nb ELSE 0)
  IN /\ Len(idx) = NDim(g, n.a)
     /\ NDim(g, p) = nres
     /\ \A k \in sl : Dim(g, p, info.sliceAt[k]) = SliceLength(idx[k])
     /\ info.advanced => \A i \in 1..info.nb : Dim(g, p, info.blockAt + i - 1) = info.bshape[i]

IndexSlices(g, p) ==
  LET n == g.nodes[p] info == IndexInfo(g, p) IN
  {<<AV(n.a, k - 1), AV(p, info.sliceAt[k])>> :
      k \in {k \in DOMAIN n.idx : IsFull(n.idx[k], Dim(g, n.a, k - 1))}}
\* axes of the index arrays against the block axes, right-aligned, equal lengths
IndexArrays(g, p, must) ==
  LET n == g.nodes[p] info == IndexInfo(g, p) IN
  UNION {LET q == n.idx[k].n m == NDim(g, q) IN
         UNION {LET bi == info.nb - m + t + 1 IN          \* 1-based block axis
                IF Dim(g, q, t) = info.bshape[bi]
                THEN EqIf(must, info.bshape[bi], <<AV(q, t), AV(p, info.blockAt + bi - 1)>>)
                ELSE {} : t \in 0..(m - 1)} : k \in info.arrs}
IndexMust(g, p) == IndexSlices(g, p) \cup IndexArrays(g, p, TRUE)
IndexMay(g, p) == IndexArrays(g, p, FALSE)

\* ---- einsum: n.acc[k][j] = [t |-> "e" | "r", d |-> index] describes axis
\* j-1 of operand k.  The length of an index is the length of the operand
\* axes that are not broadcast along it.  An operand axis of that length is
\* the index's axis: result axis d ("e") or reduction descriptor d ("r").
EinsumSlots(g, p) ==
  LET n == g.nodes[p] IN
  {<<k, j>> \in (1..Len(n.args)) \X (1..8) : j <= Len(n.acc[k])}
EinsumLen(g, p, t, d) ==
  LET n == g.nodes[p]
      ls == {Dim(g, n.args[s[1]], s[2] - 1) :
               s \in {s \in EinsumSlots(g, p) : n.acc[s[1]][s[2]].t = t /\ n.acc[s[1]][s[2]].d = d}}
  IN IF ls \ {1} = {} THEN 1 ELSE CHOOSE x \in ls \ {1} : TRUE
EinsumTarget(p, ad) == IF ad.t = "e" THEN AV(p, ad.d) ELSE RV(p, ad.d)
EinsumEq(g, p, must) ==
  LET n == g.nodes[p] IN
  UNION {LET ad == n.acc[s[1]][s[2]] len == EinsumLen(g, p, ad.t, ad.d) IN
         IF Dim(g, n.args[s[1]], s[2] - 1) = len
         THEN EqIf(must, len, <<AV(n.args[s[1]], s[2] - 1), EinsumTarget(p, ad)>>)
         ELSE {} : s \in EinsumSlots(g, p)}
\* (part 3) a length-1 operand axis broadcast along a longer reduction index
EinsumBcastRedn(g, p) ==
  LET n == g.nodes[p] IN
  UNION {LET ad == n.acc[s[1]][s[2]] IN
         IF ad.t = "r" /\ Dim(g, n.args[s[1]], s[2] - 1) # EinsumLen(g, p, ad.t, ad.d)
         THEN {<<AV(n.args[s[1]], s[2] - 1), RV(p, ad.d)>>} ELSE {} : s \in EinsumSlots(g, p)}

\* ---- sparse matrix (CSR) times array: the trailing axes of the array pass
\* through.  The element arrays are traversed by the reduction variable, but
\* only a row's range at a time: MAY
CsrMust(g, p) == LET n == g.nodes[p] IN {<<AV(n.x, j), AV(p, j)>> : j \in Axes(g, p) \ {0}}
CsrMay(g, p) == LET n == g.nodes[p] IN {<<AV(n.data, 0), RV(p, 0)>>, <<AV(n.cols, 0), RV(p, 0)>>}

\* ---- aliases: a DistributedSendRefHolder IS its pass-through data (documented
\* equations): MUST.  An entry of a dictionary of named arrays used as an
\* operand is the same array, but the documentation lists no rule for it: MAY
AliasEq(g, p) == LET n == g.nodes[p] IN {<<AV(n.a, j), AV(p, j)>> : j \in Axes(g, p)}
IsHolder(n) == "send" \in DOMAIN n

\* ---- index lambda (documented rule of map_as_index_lambda): axis j of a
\* binding is equated with result axis k when the binding is subscripted there
\* by the bare index variable _k and the two lengths are equal (a prefix read
\* is not straight-through); with a reduction descriptor when subscripted by
\* the bare reduction variable (MUST when that variable runs over the whole
\* axis, else MAY).
RECURSIVE Subs(_), SubsL(_), RedBounds(_), RedBoundsL(_)
SubsL(es) == IF Len(es) = 0 THEN <<>> ELSE Subs(Head(es)) \o SubsL(Tail(es))
Subs(e) ==
  CASE e.k = "sub" -> <<[a |-> e.a, i |-> e.i]>> \o SubsL(e.i)
    [] e.k \in {"add", "mul", "and", "or", "band", "bor", "bxor", "max", "min"} -> SubsL(e.c)
    [] e.k \in {"quot", "fdiv", "mod", "pow", "cmp"} -> Subs(e.a) \o Subs(e.b)
    [] e.k \in {"not", "cast"} -> Subs(e.a)
    [] e.k = "if" -> Subs(e.c) \o Subs(e.t) \o Subs(e.e)
    [] e.k = "call" -> SubsL(e.p)
    [] e.k = "red" -> Subs(e.a) \o SubsL([q \in DOMAIN e.b |-> e.b[q].lo])
                                \o SubsL([q \in DOMAIN e.b |-> e.b[q].hi])
    [] e.k \in {"ix", "bv", "rv", "c", "cd", "nan"} -> <<>>
RedBoundsL(es) == IF Len(es) = 0 THEN <<>> ELSE RedBounds(Head(es)) \o RedBoundsL(Tail(es))
RedBounds(e) ==
  CASE e.k = "sub" -> RedBoundsL(e.i)
    [] e.k \in {"add", "mul", "and", "or", "band", "bor", "bxor", "max", "min"} -> RedBoundsL(e.c)
    [] e.k \in {"quot", "fdiv", "mod", "pow", "cmp"} -> RedBounds(e.a) \o RedBounds(e.b)
    [] e.k \in {"not", "cast"} -> RedBounds(e.a)
    [] e.k = "if" -> RedBounds(e.c) \o RedBounds(e.t) \o RedBounds(e.e)
    [] e.k = "call" -> RedBoundsL(e.p)
    [] e.k = "red" -> e.b \o RedBounds(e.a) \o RedBoundsL([q \in DOMAIN e.b |-> e.b[q].lo])
                                            \o RedBoundsL([q \in DOMAIN e.b |-> e.b[q].hi])
    [] e.k \in {"ix", "bv", "rv", "c", "cd", "nan"} -> <<>>

FullRange(bs, name, len) ==
  /\ \E q \in DOMAIN bs : bs[q].v = name
  /\ \A q \in DOMAIN bs : bs[q].v = name =>
        /\ bs[q].lo.k = "c" /\ bs[q].lo.v = 0
        /\ bs[q].hi.k = "c" /\ bs[q].hi.v = len

ILEq(g, p, must) ==
  LET n == g.nodes[p]
      subs == Subs(n.expr)
      bs == RedBounds(n.expr)
      rvpos(name) == CHOOSE j \in DOMAIN n.rv : n.rv[j] = name
  IN UNION {
       LET s == subs[q] IN
       IF s.a \notin DOMAIN n.bind THEN {}
       ELSE LET b == n.bind[s.a] IN
            UNION {LET it == s.i[j] IN
                   IF j > NDim(g, b) THEN {}
                   ELSE IF it.k = "ix" THEN
                     (IF it.d < NDim(g, p) /\ Dim(g, b, j - 1) = Dim(g, p, it.d)
                      THEN EqIf(must, Dim(g, b, j - 1), <<AV(b, j - 1), AV(p, it.d)>>)
                      ELSE {})
                   ELSE IF it.k = "rv" /\ it.n \in Range(n.rv) THEN
                     (IF FullRange(bs, it.n, Dim(g, b, j - 1)) = must
                      THEN {<<AV(b, j - 1), RV(p, rvpos(it.n) - 1)>>} ELSE {})
                   ELSE {} : j \in DOMAIN s.i}
       : q \in DOMAIN subs}

\* ---- the two rule sets
MustN(g, p) ==
  LET kd == g.nodes[p].kind IN
  CASE kd = "in" -> {}
    [] kd = "il" -> ILEq(g, p, TRUE)
    [] kd = "stack" -> StackEq(g, p)
    [] kd = "concat" -> ConcatMust(g, p)
    [] kd = "roll" -> RollMust(g, p)
    [] kd = "perm" -> PermEq(g, p)
    [] kd = "reshape" -> ReshapeEq(g, p)
    [] kd = "index" -> IndexMust(g, p)
    [] kd = "einsum" -> EinsumEq(g, p, TRUE)
    [] kd = "csr" -> CsrMust(g, p)
    [] kd = "alias" -> IF IsHolder(g.nodes[p]) THEN AliasEq(g, p) ELSE {}
MayN(g, p) ==
  LET kd == g.nodes[p].kind IN
  CASE kd = "il" -> ILEq(g, p, FALSE)
    [] kd = "concat" -> ConcatMay(g, p)
    [] kd = "roll" -> RollMay(g, p)
    [] kd = "index" -> IndexMay(g, p)
    [] kd = "einsum" -> EinsumEq(g, p, FALSE)
    [] kd = "csr" -> CsrMay(g, p)
    [] kd = "alias" -> IF IsHolder(g.nodes[p]) THEN {} ELSE AliasEq(g, p)
    [] kd \in {"in", "stack", "perm", "reshape"} -> {}

MustEqs(g) == UNION {MustN(g, p) : p \in DOMAIN g.nodes}
MayEqs(g) == UNION {MayN(g, p) : p \in DOMAIN g.nodes}
BcastRednEqs(g) == UNION {IF g.nodes[p].kind = "einsum" THEN EinsumBcastRedn(g, p) ELSE {}
                          : p \in DOMAIN g.nodes}

(***************************************************************************)
(* Part 3: the deviation "tag variables are vertices".  In the             *)
(* implementation's propagation graph every tag is a vertex adjacent to    *)
(* the axes that carry it, and the search from one tag walks through the   *)
(* vertices of other tags.  In terms of axis variables: two non-ignored    *)
(* array axes that initially share a propagating tag behave as if equated. *)
(***************************************************************************)
BridgeEqs(AxVars, src, PT) ==
  {<<u, v>> \in AxVars \X AxVars : u < v /\ src[u] \cap src[v] \cap PT # {}}
=============================================================================
