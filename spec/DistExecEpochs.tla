--------------------------- MODULE DistExecEpochs ---------------------------
(***************************************************************************)
(* TIME STEPPING: every rank executes THE SAME partition object MaxEpoch   *)
(* times in a row, without any synchronisation between the steps of        *)
(* different ranks (a fast rank may be a whole step ahead: its messages of *)
(* step k+1 wait in the network until the receiver has finished step k and *)
(* posted its receives again; MPI's non-overtaking rule per (source, tag)  *)
(* keeps the steps apart).                                                 *)
(*                                                                         *)
(* execute.py memoises the input-name reference counts ON THE PARTITION    *)
(* (memoize_on_first_arg) and works on a COPY of them:                     *)
(*     partition_input_names_refcount =                                    *)
(*         _get_partition_input_name_refcount(partition).copy()            *)
(* memo[r] is that memoised function (<<>>: not computed yet).  With       *)
(* CopyMemo = FALSE the working counts ARE the memoised object (the        *)
(* deviation this module was written to exclude: the first execution       *)
(* consumes the counts, the second starts from zeros, nothing is released  *)
(* and the final consistency check fails) -- TLC must report it            *)
(* (DistExecEpochsAlias.cfg).                                              *)
(*                                                                         *)
(* All actions other than the start of an execution are DistExec's own.    *)
(***************************************************************************)
EXTENDS DistExec

CONSTANTS MaxEpoch, CopyMemo

VARIABLES epoch,      \* rank -> number of the execution in progress (1..MaxEpoch)
          memo        \* rank -> the memoised reference counts, <<>> before the first use
evars == <<vars, epoch, memo>>

EInit == /\ Init
         /\ epoch = [r \in Ranks |-> 1]
         /\ memo = [r \in Ranks |-> <<>>]

Rc0(r) == [nm \in AllIns(r) |-> Cardinality({p \in Pids(r) : nm \in Ins(r, p)})]
Memo(r) == IF memo[r] = <<>> THEN Rc0(r) ELSE memo[r]

\* PostRecvs of DistExec, the counts taken from the memoised function
EPost(r) ==
  /\ pc[r] = "post"
  /\ LET c0 == [nm \in Rng(Rk(r).userin) |-> Exp(r, nm)]
         rc0 == Memo(r)
         a == Advance(r, toExec[r], {}, {}, c0, rc0)
     IN /\ ctx' = [ctx EXCEPT ![r] = c0]
        /\ refc' = [refc EXCEPT ![r] = rc0]
        /\ pending' = [pending EXCEPT ![r] = [k \in 1..Len(Posted(r)) |-> k]]
        /\ pc' = [pc EXCEPT ![r] = a.pc]
        /\ ready' = [ready EXCEPT ![r] = a.ready]
        /\ err' = [err EXCEPT ![r] = Sticky(r, a.err)]
  /\ UNCHANGED <<inst, toExec, executed, recvDone, released, net>>

\* the memoised object after a step of rank r: untouched when the executor works on a
\* copy; the working counts themselves when it does not
MemoAfter(r) == IF CopyMemo THEN [memo EXCEPT ![r] = Memo(r)]
                ELSE [memo EXCEPT ![r] = refc'[r]]

EStep(r) ==
  /\ \/ EPost(r)
     \/ \E p \in ready[r] : ExecPart(r, p)
     \/ \E S \in SUBSET Completable(r) : WaitSome(r, S)
     \/ Spin(r)
     \/ Drain(r)
  /\ memo' = MemoAfter(r)
  /\ UNCHANGED epoch

\* the next time step: the rank-local state of execute_distributed_partition is new,
\* the partition object (memo) and the network are what they are
Restart(r) ==
  /\ pc[r] = "done" /\ err[r] = "" /\ epoch[r] < MaxEpoch /\ pending[r] = <<>>
  /\ pc' = [pc EXCEPT ![r] = "post"]
  /\ ctx' = [ctx EXCEPT ![r] = <<>>]
  /\ toExec' = [toExec EXCEPT ![r] = Pids(r)]
  /\ executed' = [executed EXCEPT ![r] = {}]
  /\ recvDone' = [recvDone EXCEPT ![r] = {}]
  /\ refc' = [refc EXCEPT ![r] = <<>>]
  /\ ready' = [ready EXCEPT ![r] = {}]
  /\ released' = [released EXCEPT ![r] = {}]
  /\ epoch' = [epoch EXCEPT ![r] = @ + 1]
  /\ UNCHANGED <<inst, pending, net, err, memo>>

EFinal(r) == \/ pc[r] \in {"crashed", "spinning"}
             \/ pc[r] = "done" /\ (epoch[r] = MaxEpoch \/ err[r] # "" \/ pending[r] # <<>>)
EHalted == \A r \in Ranks : EFinal(r) \/ Blocked(r)

ENext == \/ \E r \in Ranks : EStep(r) \/ Restart(r)
         \/ EHalted /\ UNCHANGED evars

ESpec == EInit /\ [][ENext]_evars
ELiveSpec == ESpec /\ \A r \in 1..MaxRanks : WF_evars(r \in Ranks /\ (EStep(r) \/ Restart(r)))

EAllDone == \A r \in Ranks : pc[r] = "done" /\ epoch[r] = MaxEpoch
EDeadlock == EHalted /\ (\E r \in Ranks : Blocked(r)) /\ Errs = {}
EMessageLeft == EAllDone /\ \E ch \in DOMAIN net : net[ch] # <<>>
EClause == IF Errs # {} THEN CHOOSE e \in Errs : TRUE
           ELSE IF EDeadlock THEN "deadlock"
           ELSE IF ~FaithfulRecv THEN "misdelivery"
           ELSE IF RequestLeft THEN "request_left_pending"
           ELSE IF EMessageLeft THEN "message_never_received"
           ELSE "ok"
\* one verdict line per halted state of an instance, as DistExec!Report
EReport == /\ (EHalted => PrintT(<<"T", I.id, EClause>>))
           /\ (~EHalted /\ ~FaithfulRecv => PrintT(<<"T", I.id, "misdelivery">>))
\* the memoised counts are never consumed
MemoIntact == \A r \in Ranks : memo[r] = <<>> \/ memo[r] = Rc0(r)
ETermination == <>EAllDone
=============================================================================
