------------------------------ MODULE PtAxesMC ------------------------------
(***************************************************************************)
(* Model checking of the propagation semantics of PtAxes (part 1) on its   *)
(* own, over ALL small instances: N axis variables, every set of MUST      *)
(* equations, every set of MAY equations (optional), every placement of    *)
(* ignore marks, every choice of reduction-descriptor variables            *)
(* (optional), every assignment of subsets of the tags to the variables.   *)
(* Every instance is an initial state; the actions AddTag / AddMust /      *)
(* AddMay / AddIgn move between instances, and the action properties say   *)
(* how the specified result moves with them.                               *)
(*                                                                         *)
(* Tags are the integers 101..100+T (so that the model of the              *)
(* implementation's propagation graph, whose vertices are axis variables   *)
(* AND tags, is a graph over integers).                                    *)
(*                                                                         *)
(* Lower / Upper are the two bounds of the specification (PtAxesCheck uses *)
(* the same operators on real graphs):                                     *)
(*   Lower  MUST equations; sources: array axes; blocked: ignored array    *)
(*          axes and ignored reduction descriptors                         *)
(*   Upper  MUST + MAY equations; sources: array axes and reduction        *)
(*          descriptors; blocked: ignored array axes only                  *)
(* (the implementation carries a FIXME saying that reduction descriptors   *)
(* do not honour the ignore tag, and never takes a reduction descriptor's  *)
(* own tags as a source; the documentation is silent on both, hence both   *)
(* readings are allowed).                                                  *)
(***************************************************************************)
EXTENDS PtAxes, Json

CONSTANTS N, T, WithMay, WithRedn

Vars == 1..N
Tags == 101..(100 + T)
Pairs == {e \in Vars \X Vars : e[1] < e[2]}

VARIABLES must, may, ign, rdn, tg
vars == <<must, may, ign, rdn, tg>>

\* every instance an initial state (used by the generator and the negative controls)
InitAll == /\ must \in SUBSET Pairs
        /\ may \in (IF WithMay THEN SUBSET (Pairs \ must) ELSE {{}})
        /\ ign \in SUBSET Vars
        /\ rdn \in (IF WithRedn THEN SUBSET Vars ELSE {{}})
        /\ tg \in [Vars -> SUBSET Tags]
\* the empty instance(s): every other instance is reached by the actions below
\* (which only ever ADD a tag, an equation or an ignore mark), so TLC's
\* breadth-first search enumerates the same space, in parallel
Init == /\ must = {} /\ may = {} /\ ign = {}
        /\ rdn \in (IF WithRedn THEN SUBSET Vars ELSE {{}})
        /\ tg = [v \in Vars |-> {}]

\* ---- the specification's two bounds for an instance
SrcAx(tags, rd) == [v \in Vars |-> IF v \in rd THEN {} ELSE tags[v]]
LowerOf(mu, ig, rd, tags) == Closure(Vars, mu, ig, SrcAx(tags, rd), Tags)
UpperOf(mu, ma, ig, rd, tags) == Closure(Vars, mu \cup ma, ig \ rd, tags, Tags)
Lower == LowerOf(must, ign, rdn, tg)
Upper == UpperOf(must, may, ign, rdn, tg)

\* ---- an independent definition of connectivity: Floyd-Warshall on the
\* unblocked vertices
RECURSIVE FW(_, _)
FW(R, k) == IF k = 0 THEN R
            ELSE LET P == FW(R, k - 1)
                 IN P \cup {e \in Vars \X Vars : <<e[1], k>> \in P /\ <<k, e[2]>> \in P}
Conn(E, Blk) ==
  LET free == Vars \ Blk
      R0 == {e \in free \X free : e[1] = e[2] \/ e \in E \/ <<e[2], e[1]>> \in E}
  IN FW(R0, N)

(***************************************************************************)
(* Invariants (one instance = one state).  L, U, I stand for the lower     *)
(* bound, the upper bound and the implementation model of the current      *)
(* instance (passed as arguments so that TLC computes each of them once    *)
(* per state).                                                             *)
(***************************************************************************)
\* the two-sided specification is satisfiable: the lower bound is inside the upper
LowerInUpper(L, U) == \A v \in Vars : L[v] \subseteq U[v]

\* a tag reaches v iff v is connected to a source by a path of unblocked
\* vertices: blocked exactly by ignored axes
PathCharacterisation(L, U) ==
  LET cl == Conn(must, ign) cu == Conn(must \cup may, ign \ rdn) IN
  /\ \A v \in Vars, t \in Tags :
       t \in L[v] <=> \E s \in Vars \ rdn : t \in tg[s] /\ <<s, v>> \in cl
  /\ \A v \in Vars, t \in Tags :
       t \in U[v] <=> \E s \in Vars : t \in tg[s] /\ <<s, v>> \in cu

\* the result solves the equations (equal across every equation between
\* unblocked variables) and contains the given tags of every unblocked source
Solves(S, E, Blk, src) ==
  /\ \A v \in Vars \ Blk : src[v] \subseteq S[v]
  /\ \A e \in E : e[1] \notin Blk /\ e[2] \notin Blk => S[e[1]] = S[e[2]]
IsSolution(L, U) == /\ Solves(L, must, ign, SrcAx(tg, rdn))
                    /\ Solves(U, must \cup may, ign \ rdn, tg)
\* ... and is the least such assignment; blocked variables get nothing
IsLeastP(L, U) ==
  /\ \A S \in [Vars -> SUBSET Tags] :
        Solves(S, must, ign, SrcAx(tg, rdn)) => \A v \in Vars : L[v] \subseteq S[v]
  /\ \A S \in [Vars -> SUBSET Tags] :
        Solves(S, must \cup may, ign \ rdn, tg) => \A v \in Vars : U[v] \subseteq S[v]
  /\ \A v \in ign : L[v] = {}
  /\ \A v \in ign \ rdn : U[v] = {}

\* idempotent: unifying the unified graph changes nothing.  The result of a
\* run is  given tags + closure; for EVERY implementation that is the closure
\* under some equation set between MUST and MUST + MAY.
After(tags, C) == [v \in Vars |-> tags[v] \cup C[v]]
Idempotent ==
  \A ex \in SUBSET may :
    LET t1 == TLCEval(After(tg, LowerOf(must \cup ex, ign, rdn, tg)))
    IN After(t1, LowerOf(must \cup ex, ign, rdn, t1)) = t1
IdempotentUpper(U) ==
  LET t1 == TLCEval(After(tg, U)) IN After(t1, UpperOf(must, may, ign, rdn, t1)) = t1
\* and every such implementation lies within the two bounds
AnyRuleSetWithinBounds(L, U) ==
  \A ex \in SUBSET may :
    LET c == LowerOf(must \cup ex, ign, rdn, tg) IN
    \A v \in Vars : L[v] \subseteq c[v] /\ c[v] \subseteq U[v]

\* without ignore marks: plain connected components
NoIgnoreIsComponents(L) ==
  ign = {} =>
    LET cc == Conn(must, {}) IN
    \A v \in Vars : L[v] = UNION {tg[s] : s \in {s \in Vars \ rdn : <<s, v>> \in cc}}

(***************************************************************************)
(* A DOCUMENTED NEGATIVE EXAMPLE, not the specification: the algorithm of   *)
(* unify_axes_tags as it was before /repo commit 74f77a7 (finding X01-F1). *)
(* There, the propagation graph has a vertex per axis variable and per    *)
(* tag, an edge per equation and per (array axis, tag it carries); for     *)
(* each tag, every vertex reachable from the tag's vertex without entering *)
(* an ignored array axis gets the tag.  Reduction descriptors contribute   *)
(* no tag edges and are never excluded.                                    *)
(***************************************************************************)
ImplOf(mu, ig, rd, tags) ==
  LET E2 == mu \cup {e \in Vars \X Tags : e[1] \notin rd /\ e[2] \in tags[e[1]]}
      R == TLCEval([t \in Tags |-> Reach(E2, ig \ rd, {t})])
  IN TLCEval([v \in Vars |-> {t \in Tags : v \in R[t]}])
Impl == ImplOf(must, ign, rdn, tg)

\* EXPECTED TO BE VIOLATED (PtAxesLeak.cfg): the implementation model leaves
\* the upper bound -- TLC's counterexample is the smallest leak
ImplWithinUpper == LET U == Upper I == Impl IN \A v \in Vars : I[v] \subseteq U[v]
\* the model of the deviation used for diagnosis (PtAxes part 3) is exact
ImplIsBridgedClosure(I) ==
  LET br == BridgeEqs(Vars \ rdn, SrcAx(tg, rdn), Tags) IN
  I = Closure(Vars, must \cup br, ign \ rdn, SrcAx(tg, rdn), Tags)
\* the implementation never does LESS than the lower bound, and agrees with
\* it when no array axis ends up with two propagating tags (the UniqueTag
\* discipline: one propagated tag per axis)
ImplAboveLower(L, I) == \A v \in Vars : L[v] \subseteq I[v]
ImplExactWhenUnique(L, I) ==
  (\A v \in Vars \ (rdn \cup ign) : Cardinality(L[v]) <= 1) /\ (ign \cap rdn = {})
     => I = L

\* EXPECTED TO BE VIOLATED (PtAxesLenient.cfg): the "lenient" reading of the
\* ignore tag (an ignored axis may still receive and emit, it only is no
\* interior vertex of a path) is not idempotent -- two runs carry a tag
\* across the ignored axis.  This is why the specification uses the strict one.
LenientReach(E, Blk, Src) == Grow(E, Blk, Src \cup Nbrs(E, Src))
LenientOf(tags) ==
  [v \in Vars |-> {t \in Tags : v \in LenientReach(must, ign, {s \in Vars : t \in tags[s]})}]
LenientIdempotent ==
  LET t1 == After(tg, LenientOf(tg)) IN After(t1, LenientOf(t1)) = t1

\* a failing conjunct prints its name
Named(name, cond) == cond \/ (PrintT(<<"FAILED", name>>) /\ FALSE)
AllInvariants ==
  LET L == Lower U == Upper I == Impl IN
  /\ Named("LowerInUpper", LowerInUpper(L, U))
  /\ Named("PathCharacterisation", PathCharacterisation(L, U))
  /\ Named("IsSolution", IsSolution(L, U))
  /\ Named("Idempotent", Idempotent)
  /\ Named("IdempotentUpper", IdempotentUpper(U))
  /\ Named("AnyRuleSetWithinBounds", AnyRuleSetWithinBounds(L, U))
  /\ Named("NoIgnoreIsComponents", NoIgnoreIsComponents(L))
  /\ Named("ImplIsBridgedClosure", ImplIsBridgedClosure(I))
  /\ Named("ImplAboveLower", ImplAboveLower(L, I))
  /\ Named("ImplExactWhenUnique", ImplExactWhenUnique(L, I))
IsLeast == LET L == Lower U == Upper IN IsLeastP(L, U)

(***************************************************************************)
(* Actions between instances (they only ever ADD a tag, an equation or an  *)
(* ignore mark), and how the specified result moves with them              *)
(***************************************************************************)
AddTag == \E v \in Vars, t \in Tags :
            /\ t \notin tg[v]
            /\ tg' = [tg EXCEPT ![v] = @ \cup {t}]
            /\ UNCHANGED <<must, may, ign, rdn>>
AddMust == \E e \in Pairs \ (must \cup may) :
            /\ must' = must \cup {e}
            /\ UNCHANGED <<may, ign, rdn, tg>>
AddMay == /\ WithMay
          /\ \E e \in Pairs \ (must \cup may) :
               /\ may' = may \cup {e}
               /\ UNCHANGED <<must, ign, rdn, tg>>
Promote == \E e \in may :
            /\ may' = may \ {e} /\ must' = must \cup {e}
            /\ UNCHANGED <<ign, rdn, tg>>
AddIgn == \E v \in Vars \ ign :
            /\ ign' = ign \cup {v}
            /\ UNCHANGED <<must, may, rdn, tg>>
Next == AddTag \/ AddMust \/ AddMay \/ Promote \/ AddIgn
Stutter == UNCHANGED vars

Leq(A, B) == \A v \in Vars : A[v] \subseteq B[v]
\* monotone in the tag assignment and in the equations; more ignore marks
\* never add anything; a MAY equation never changes the lower bound;
\* promoting a MAY equation to MUST never changes the upper bound
Moves ==
  [][LET l1 == Lower l2 == Lower' u1 == Upper u2 == Upper' IN
     /\ Named("MonotoneInTags", tg' # tg => Leq(l1, l2) /\ Leq(u1, u2))
     /\ Named("MonotoneInEquations",
              (must' # must \/ may' # may) => Leq(l1, l2) /\ Leq(u1, u2))
     /\ Named("MayKeepsLower", (may' # may /\ must' = must) => l2 = l1)
     /\ Named("PromoteKeepsUpper", (may' # may /\ must' # must) => u2 = u1)
     /\ Named("IgnoreOnlyBlocks", ign' # ign => Leq(l2, l1) /\ Leq(u2, u1))]_vars

\* the same statements as a state invariant (every one-step move out of the
\* current instance is examined from it; much faster in TLC than the action
\* property, which the thorough configuration checks as well)
MovesFromHere ==
  LET L == Lower U == Upper IN
  /\ \A v \in Vars, t \in Tags :
       t \notin tg[v] =>
         LET tg2 == [tg EXCEPT ![v] = @ \cup {t}] IN
         Named("MonotoneInTags", /\ Leq(L, LowerOf(must, ign, rdn, tg2))
                                 /\ Leq(U, UpperOf(must, may, ign, rdn, tg2)))
  /\ \A e \in Pairs \ (must \cup may) :
       /\ Named("MonotoneInEquations", /\ Leq(L, LowerOf(must \cup {e}, ign, rdn, tg))
                                       /\ Leq(U, UpperOf(must \cup {e}, may, ign, rdn, tg)))
       /\ WithMay => Named("MayKeepsLower", Leq(U, UpperOf(must, may \cup {e}, ign, rdn, tg)))
  /\ \A e \in may :
       Named("PromoteKeepsUpper", Leq(L, LowerOf(must \cup {e}, ign, rdn, tg)))
  /\ \A v \in Vars \ ign :
       Named("IgnoreOnlyBlocks", /\ Leq(LowerOf(must, ign \cup {v}, rdn, tg), L)
                                 /\ Leq(UpperOf(must, may, ign \cup {v}, rdn, tg), U))

(***************************************************************************)
(* Generator: one line per instance with the expected bounds (replayed     *)
(* into the real implementation by checks/x01.py)                          *)
(***************************************************************************)
SetSeq(S) == LET RECURSIVE F(_)
                 F(X) == IF X = {} THEN <<>>
                         ELSE LET x == CHOOSE y \in X : \A z \in X : y <= z
                              IN <<x>> \o F(X \ {x})
             IN F(S)
EdgeSeq(E) == LET RECURSIVE F(_)
                  F(X) == IF X = {} THEN <<>>
                          ELSE LET x == CHOOSE y \in X : \A z \in X :
                                          y[1] < z[1] \/ (y[1] = z[1] /\ y[2] <= z[2])
                               IN <<x>> \o F(X \ {x})
              IN F(E)
Emit == PrintT(<<"INST", ToJson([n |-> N,
                                 must |-> EdgeSeq(must), may |-> EdgeSeq(may),
                                 ign |-> SetSeq(ign),
                                 tags |-> [v \in Vars |-> SetSeq(tg[v])],
                                 lower |-> [v \in Vars |-> SetSeq(Lower[v])],
                                 upper |-> [v \in Vars |-> SetSeq(Upper[v])],
                                 impl |-> [v \in Vars |-> SetSeq(Impl[v])]])>>)
=============================================================================
