------------------------------- MODULE PtCore -------------------------------
(***************************************************************************)
(* Definitions shared by the whole specification family: shapes, index     *)
(* arithmetic (C and F order), NumPy broadcasting, Python slice semantics, *)
(* Python floor division / modulo, and the dtype promotion lattice.        *)
(* Everything here is written from NumPy's / CPython's documented          *)
(* behaviour, not from pytato's code.                                      *)
(***************************************************************************)
EXTENDS Integers, Sequences, FiniteSets, TLC

Abs(x) == IF x < 0 THEN -x ELSE x
Max2(a, b) == IF a >= b THEN a ELSE b
Min2(a, b) == IF a <= b THEN a ELSE b

\* Python's floor division and modulo (TLC's \div and % need a positive divisor)
PyDiv(a, b) == IF b > 0 THEN a \div b ELSE (-a) \div (-b)
PyMod(a, b) == a - b * PyDiv(a, b)

RECURSIVE SumSeq(_)
SumSeq(s) == IF s = <<>> THEN 0 ELSE Head(s) + SumSeq(Tail(s))
RECURSIVE ProdSeq(_)
ProdSeq(s) == IF s = <<>> THEN 1 ELSE Head(s) * ProdSeq(Tail(s))

SeqRange(s) == {s[i] : i \in DOMAIN s}

(***************************************************************************)
(* Shapes are sequences of naturals, multi-indices are 0-based sequences.  *)
(***************************************************************************)
SizeOf(s) == ProdSeq(s)

StrideC(s, k) == ProdSeq(SubSeq(s, k + 1, Len(s)))
StrideF(s, k) == ProdSeq(SubSeq(s, 1, k - 1))
Stride(s, k, order) == IF order = "C" THEN StrideC(s, k) ELSE StrideF(s, k)

\* flat position (0-based) <-> multi-index; only used for non-empty arrays
Unflat(f, s, order) == [k \in 1..Len(s) |-> (f \div Stride(s, k, order)) % s[k]]
Flat(idx, s, order) == SumSeq([k \in 1..Len(s) |-> idx[k] * Stride(s, k, order)])
UnflatC(f, s) == Unflat(f, s, "C")
FlatC(idx, s) == Flat(idx, s, "C")

InBounds(idx, s) == /\ Len(idx) = Len(s)
                    /\ \A k \in 1..Len(s) : idx[k] >= 0 /\ idx[k] < s[k]

\* remove / insert position p (1-based) of a sequence
DropAt(s, p) == SubSeq(s, 1, p - 1) \o SubSeq(s, p + 1, Len(s))
InsertAt(s, p, v) == SubSeq(s, 1, p - 1) \o <<v>> \o SubSeq(s, p, Len(s))

(***************************************************************************)
(* NumPy broadcasting: right-align, pad with 1; lengths equal or one is 1. *)
(***************************************************************************)
PadLeft(s, n) == [k \in 1..n |-> IF k <= n - Len(s) THEN 1 ELSE s[k - (n - Len(s))]]

Broadcastable2(a, b) ==
  LET n == Max2(Len(a), Len(b)) pa == PadLeft(a, n) pb == PadLeft(b, n)
  IN \A k \in 1..n : pa[k] = pb[k] \/ pa[k] = 1 \/ pb[k] = 1

BShape2(a, b) ==
  LET n == Max2(Len(a), Len(b)) pa == PadLeft(a, n) pb == PadLeft(b, n)
  IN [k \in 1..n |-> IF pa[k] = 1 THEN pb[k] ELSE pa[k]]

RECURSIVE BroadcastableAll(_)
BroadcastableAll(shapes) ==
  IF Len(shapes) <= 1 THEN TRUE
  ELSE /\ Broadcastable2(shapes[1], shapes[2])
       /\ BroadcastableAll(<<BShape2(shapes[1], shapes[2])>> \o SubSeq(shapes, 3, Len(shapes)))
RECURSIVE BShapeAll(_)
BShapeAll(shapes) ==
  IF Len(shapes) = 0 THEN <<>>
  ELSE IF Len(shapes) = 1 THEN shapes[1]
  ELSE BShapeAll(<<BShape2(shapes[1], shapes[2])>> \o SubSeq(shapes, 3, Len(shapes)))

\* the index into an operand of shape s for result index i (result rank >= Len(s))
BIndex(i, s) == LET d == Len(i) - Len(s)
                IN [k \in 1..Len(s) |-> IF s[k] = 1 THEN 0 ELSE i[k + d]]

(***************************************************************************)
(* Python slices.  An optional integer is <<>> (None) or <<v>>.            *)
(* NormSlice follows CPython's PySlice_AdjustIndices.                      *)
(***************************************************************************)
IsNone(o) == o = <<>>
OptVal(o) == o[1]

SliceStep(step) == IF IsNone(step) THEN 1 ELSE OptVal(step)

SliceStart(start, step, n) ==
  LET k == SliceStep(step) IN
  IF IsNone(start) THEN (IF k > 0 THEN 0 ELSE n - 1)
  ELSE LET s == OptVal(start) IN
       IF s < 0 THEN (IF s + n < 0 THEN (IF k < 0 THEN -1 ELSE 0) ELSE s + n)
       ELSE (IF s >= n THEN (IF k < 0 THEN n - 1 ELSE n) ELSE s)

SliceStop(stop, step, n) ==
  LET k == SliceStep(step) IN
  IF IsNone(stop) THEN (IF k > 0 THEN n ELSE -1)
  ELSE LET s == OptVal(stop) IN
       IF s < 0 THEN (IF s + n < 0 THEN (IF k < 0 THEN -1 ELSE 0) ELSE s + n)
       ELSE (IF s >= n THEN (IF k < 0 THEN n - 1 ELSE n) ELSE s)

\* length of range(start, stop, step) for normalised values
RangeLen(s, e, k) ==
  IF k > 0 THEN (IF e > s THEN (e - s + k - 1) \div k ELSE 0)
  ELSE (IF e < s THEN (s - e + (-k) - 1) \div (-k) ELSE 0)

SliceLen(start, stop, step, n) ==
  RangeLen(SliceStart(start, step, n), SliceStop(stop, step, n), SliceStep(step))
SliceAt(start, step, n, t) == SliceStart(start, step, n) + t * SliceStep(step)

IntIndexValid(i, n) == -n <= i /\ i < n
IntIndexNorm(i, n) == IF i < 0 THEN i + n ELSE i

(***************************************************************************)
(* The dtype lattice.  A dtype is a string: kind letter in b,u,i,f,c and   *)
(* its size in bytes: "b1" "i1".."i8" "u1".."u8" "f4" "f8" "c8" "c16".     *)
(***************************************************************************)
DTypes == {"b1", "i1", "i2", "i4", "i8", "u1", "u2", "u4", "u8",
           "f4", "f8", "c8", "c16"}
KindOf(d) == CASE d = "b1" -> "b"
               [] d \in {"i1", "i2", "i4", "i8"} -> "i"
               [] d \in {"u1", "u2", "u4", "u8"} -> "u"
               [] d \in {"f4", "f8"} -> "f"
               [] d \in {"c8", "c16"} -> "c"
BytesOf(d) == CASE d \in {"b1", "i1", "u1"} -> 1
                [] d \in {"i2", "u2"} -> 2
                [] d \in {"i4", "u4", "f4"} -> 4
                [] d \in {"i8", "u8", "f8", "c8"} -> 8
                [] d = "c16" -> 16
MkI(n) == CASE n = 1 -> "i1" [] n = 2 -> "i2" [] n = 4 -> "i4" [] n = 8 -> "i8"
MkU(n) == CASE n = 1 -> "u1" [] n = 2 -> "u2" [] n = 4 -> "u4" [] n = 8 -> "u8"
KindRank(k) == CASE k = "b" -> 0 [] k = "u" -> 1 [] k = "i" -> 2
                 [] k = "f" -> 3 [] k = "c" -> 4

\* numpy.promote_types for the 13 dtypes above
Promote(a, b) ==
  LET ka == KindOf(a) kb == KindOf(b) na == BytesOf(a) nb == BytesOf(b) IN
  IF a = b THEN a
  ELSE IF ka = "b" THEN b
  ELSE IF kb = "b" THEN a
  ELSE IF ka = kb THEN (IF na >= nb THEN a ELSE b)
  ELSE IF {ka, kb} = {"u", "i"} THEN
      LET un == IF ka = "u" THEN na ELSE nb
          sn == IF ka = "i" THEN na ELSE nb
      IN IF sn > un THEN MkI(sn) ELSE IF un = 8 THEN "f8" ELSE MkI(2 * un)
  ELSE IF {ka, kb} \subseteq {"u", "i", "f"} THEN   \* one integer, one float
      LET inn == IF ka = "f" THEN nb ELSE na
          fn  == IF ka = "f" THEN na ELSE nb
      IN IF fn = 8 \/ inn >= 4 THEN "f8" ELSE "f4"
  ELSE IF {ka, kb} \subseteq {"u", "i", "c"} THEN   \* one integer, one complex
      LET inn == IF ka = "c" THEN nb ELSE na
          cn  == IF ka = "c" THEN na ELSE nb
      IN IF cn = 16 \/ inn >= 4 THEN "c16" ELSE "c8"
  ELSE \* one float, one complex
      LET fn == IF ka = "f" THEN na ELSE nb
          cn == IF ka = "c" THEN na ELSE nb
      IN IF cn = 16 \/ fn = 8 THEN "c16" ELSE "c8"

\* NEP 50 weak promotion: a Python scalar of kind pk in b,i,f,c with an array dtype d
PromoteWeak(d, pk) ==
  LET kd == KindOf(d) IN
  CASE pk = "b" -> d
    [] pk = "i" -> IF kd = "b" THEN "i8" ELSE d
    [] pk = "f" -> IF kd \in {"b", "u", "i"} THEN "f8" ELSE d
    [] pk = "c" -> IF kd \in {"b", "u", "i"} THEN "c16"
                   ELSE IF d = "f4" THEN "c8"
                   ELSE IF d = "f8" THEN "c16" ELSE d

\* dtype of a Python scalar on its own
PyScalarDType(pk) == CASE pk = "b" -> "b1" [] pk = "i" -> "i8"
                       [] pk = "f" -> "f8" [] pk = "c" -> "c16"

\* numpy.true_divide result type for already promoted operand type d
TrueDivType(d) == IF KindOf(d) \in {"b", "u", "i"} THEN "f8" ELSE d
=============================================================================
