CONSTANTS N = 4 UseMemo = TRUE
INIT Init
NEXT Next
INVARIANT OncePerPair
INVARIANT MemoSound
INVARIANT MemoFunctional
INVARIANT ResultIsStructEq
CHECK_DEADLOCK FALSE
