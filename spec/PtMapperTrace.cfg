\* validation of recorded traces: the graph and the variant come from the batch
CONSTANTS
  MaxN = 1000000
  MaxAr = 0
  Families = {}
  Keys = {}
  Extras = {}
  Cacheds = {}
  ErrCols = {}
  ErrDups = {}
  Dups = TRUE
  ChgSet = {0}
  AnyOrder = TRUE
  Emit = FALSE
INIT TInit
NEXT TNext
INVARIANT Verdict
CHECK_DEADLOCK FALSE
