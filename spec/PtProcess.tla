------------------------------ MODULE PtProcess ------------------------------
(***************************************************************************)
(* C17: what is emitted for a fixed program does not depend on the         *)
(* interpreter process.                                                    *)
(*                                                                         *)
(* A process is [seed, hist]: its PYTHONHASHSEED and its allocation        *)
(* history ("fwd": programs in list order; "warm": reverse order, other    *)
(* graphs built and discarded before every emission).  The only action is  *)
(*    Emit(proc, kind, prog, rep, digest)                                  *)
(* which records that process proc produced, at its rep-th attempt, an     *)
(* artefact of the given kind (loopy kernel text, loopy key, C source,     *)
(* Python source, partition summary of rank r, tag map of rank r) with the *)
(* given sha256 digest for program prog.                                   *)
(*                                                                         *)
(* State: emitted, the set of events so far.  Invariant                    *)
(*    SingleValued == for a fixed (kind, prog) all digests are equal       *)
(* and, so that the invariant cannot hold vacuously, at the end of a trace *)
(*    Witnessed == every (kind, prog) was emitted under >= 2 seeds, under  *)
(*                 >= 2 histories, and twice in one process.               *)
(*                                                                         *)
(* Validation module (use E): one record = the event trace of one          *)
(* (kind, prog) key in the order the coordinator received it; the trace is *)
(* folded through Emit and judged at every step.  Verdict lines            *)
(*    <<"V", id, "ok">>  /  <<"V", id, "fail", "[[0, clause, k, j]]">>      *)
(* (k = first event whose digest differs from that of event j).            *)
(***************************************************************************)
EXTENDS Integers, Sequences, FiniteSets, TLC, Json, IOUtils

Batch == JsonDeserialize(IOEnv.BATCH_FILE)

VARIABLE r
Init == r \in 1..Len(Batch)
Next == UNCHANGED r

KeyOf(e) == <<e.kind, e.prog>>

Emit(emitted, e) == emitted \cup {e}

SingleValued(emitted) ==
  \A e1, e2 \in emitted : KeyOf(e1) = KeyOf(e2) => e1.digest = e2.digest

Witnessed(emitted) ==
  \A k \in {KeyOf(e) : e \in emitted} :
     LET es == {e \in emitted : KeyOf(e) = k} IN
     /\ Cardinality({e.seed : e \in es}) >= 2
     /\ Cardinality({e.hist : e \in es}) >= 2
     /\ \E e1, e2 \in es : e1.proc = e2.proc /\ e1.rep # e2.rep

\* fold the trace; -> <<clause, k, j>>
RECURSIVE Run(_, _, _)
Run(emitted, evs, k) ==
  IF k > Len(evs)
  THEN IF Witnessed(emitted) THEN <<"ok", 0, 0>> ELSE <<"Witnessed", 0, 0>>
  ELSE LET nxt == Emit(emitted, evs[k]) IN
       IF SingleValued(nxt) THEN Run(nxt, evs, k + 1)
       ELSE <<"SingleValued", k,
              CHOOSE j \in 1..(k - 1) : /\ KeyOf(evs[j]) = KeyOf(evs[k])
                                         /\ evs[j].digest # evs[k].digest>>

Verdict ==
  LET rec == Batch[r]
      v == Run({}, rec.evs, 1) IN
  IF \E q \in DOMAIN rec.evs : KeyOf(rec.evs[q]) # <<rec.kind, rec.prog>>
  THEN PrintT(<<"V", rec.id, "machinery:foreign_event">>)
  ELSE IF v[1] = "ok" THEN PrintT(<<"V", rec.id, "ok">>)
  ELSE PrintT(<<"V", rec.id, "fail", ToJson(<<<<0, v[1], v[2], v[3]>>>>)>>)
=============================================================================
