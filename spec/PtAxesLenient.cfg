CONSTANTS
  N = 3
  T = 1
  WithMay = FALSE
  WithRedn = FALSE
INIT InitAll
NEXT Stutter
INVARIANTS LenientIdempotent
CHECK_DEADLOCK FALSE
