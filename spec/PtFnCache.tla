------------------------------ MODULE PtFnCache ------------------------------
(***************************************************************************)
(* How a cached mapper family treats FUNCTION DEFINITIONS                  *)
(* (pytato/transform/__init__.py: CachedMapper.rec_function_definition,    *)
(* clone_for_callee, CachedWalkMapper._visited_functions).                 *)
(*                                                                         *)
(* A graph with calls is a DAG of name spaces: 0 is the caller's graph,    *)
(* 1..NF are function definitions; Calls[f] is the set of definitions that *)
(* body f calls directly (at one or several call sites).  A mapper that    *)
(* enters a body does so with a CLONE of itself (clone_for_callee) whose   *)
(* array cache is fresh -- "Functions are cached globally, but arrays      *)
(* aren't" -- and whose FUNCTION cache is the family's one cache.          *)
(*                                                                         *)
(*   Ask(g)    a call site of g is reached in the current body: the cache  *)
(*             answers (Hit) or the definition is entered (Enter: a new    *)
(*             frame; the result is added to the cache when the frame      *)
(*             returns, as in _function_cache_add(inputs, super()...)).    *)
(*   Return    the current body is finished: every definition it calls     *)
(*             has been asked for at least once.                           *)
(*                                                                         *)
(* Share = TRUE is the design.  Share = FALSE is the deviation this module *)
(* was written to exclude (a FRESH mapper per body, as InputGatherer had   *)
(* it: a definition reachable through several enclosing bodies is entered  *)
(* once per enclosing body -- Fibonacci-many times for f_k = f_{k-1} +     *)
(* f_{k-2}); TLC refutes OncePerDefinition there (PtFnCacheFresh.cfg).     *)
(***************************************************************************)
EXTENDS Integers, Sequences, FiniteSets, TLC

CONSTANTS NF,        \* number of function definitions
          Share      \* clones share the function cache

VARIABLES calls,     \* [0..NF -> SUBSET 1..NF], chosen once (every call DAG)
          stack,     \* frames [fn, asked, cache]; cache is used when ~Share
          fcache,    \* the family's function cache (used when Share)
          entered    \* [1..NF -> Nat]: how often map_function_definition ran
vars == <<calls, stack, fcache, entered>>

Defs == 1..NF
\* callee numbers exceed caller numbers: every acyclic call graph has such a numbering
CallGraphs == {c \in [0..NF -> SUBSET Defs] : \A f \in 0..NF : \A g \in c[f] : g > f}

Top == stack[Len(stack)]
Frame(f, cache) == [fn |-> f, asked |-> {}, cache |-> cache]

Init == /\ calls \in CallGraphs
        /\ stack = <<Frame(0, {})>>
        /\ fcache = {}
        /\ entered = [g \in Defs |-> 0]

Cached(g) == IF Share THEN g \in fcache ELSE g \in Top.cache

Hit(g) == /\ g \in calls[Top.fn] /\ Cached(g)
          /\ stack' = [stack EXCEPT ![Len(stack)].asked = @ \cup {g}]
          /\ UNCHANGED <<calls, fcache, entered>>

Enter(g) == /\ g \in calls[Top.fn] /\ ~Cached(g)
            /\ stack' = Append([stack EXCEPT ![Len(stack)].asked = @ \cup {g}],
                               Frame(g, {}))
            /\ entered' = [entered EXCEPT ![g] = @ + 1]
            /\ UNCHANGED <<calls, fcache>>

Return == /\ Len(stack) > 1
          /\ Top.asked = calls[Top.fn]
          /\ LET g == Top.fn
                 rest == SubSeq(stack, 1, Len(stack) - 1)
             IN /\ stack' = [rest EXCEPT ![Len(rest)].cache = @ \cup {g}]
                /\ fcache' = fcache \cup {g}
          /\ UNCHANGED <<calls, entered>>

Next == \/ \E g \in Defs : Hit(g) \/ Enter(g)
        \/ Return

Spec == Init /\ [][Next]_vars

(***************************************************************************)
(* Properties.                                                             *)
(***************************************************************************)
RECURSIVE ReachFrom(_, _)
ReachFrom(S, k) == IF k = 0 THEN S
                   ELSE ReachFrom(S \cup UNION {calls[f] : f \in S}, k - 1)
Reachable == ReachFrom({0}, NF + 1) \ {0}

Finished == Len(stack) = 1 /\ Top.asked = calls[0]

\* a definition is mapped at most once, however many call sites and enclosing bodies
OncePerDefinition == \A g \in Defs : entered[g] <= 1
\* ... and, when the traversal is over, exactly the reachable definitions were mapped
AllReached == Finished => \A g \in Defs : entered[g] = (IF g \in Reachable THEN 1 ELSE 0)
\* only definitions that are called from the current body are asked for
TypeOK == /\ calls \in CallGraphs
          /\ \A k \in DOMAIN stack : stack[k].asked \subseteq calls[stack[k].fn]
          /\ \A k \in 1..Len(stack) - 1 : stack[k + 1].fn \in calls[stack[k].fn]
\* the total work is linear in the number of definitions
Linear == LET RECURSIVE Sum(_)
              Sum(S) == IF S = {} THEN 0
                        ELSE LET g == CHOOSE x \in S : TRUE IN entered[g] + Sum(S \ {g})
          IN Sum(Defs) <= NF
=============================================================================
