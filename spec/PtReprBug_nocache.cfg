CONSTANTS
  N = 5
  D = 4
  Mode = "no_cache"
INIT Init
NEXT Next
INVARIANTS Linear
CHECK_DEADLOCK FALSE
