CONSTANTS
  MaxLen = 2
  MaxDim = 3
  KindsB = {"reduce", "adv"}
  Rich = FALSE
INIT Init2
NEXT Next
INVARIANT LowerCorrect2
CHECK_DEADLOCK FALSE
