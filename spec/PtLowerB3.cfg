CONSTANTS
  MaxLen = 2
  MaxDim = 3
INIT Init2
NEXT Next
INVARIANT LowerCorrect2
CHECK_DEADLOCK FALSE
