CONSTANTS
  N = 4
  D = 2
  Mode = "key_without_depth"
INIT Init
NEXT Next
INVARIANTS Correct
CHECK_DEADLOCK FALSE
