------------------------------- MODULE PtLower -------------------------------
(***************************************************************************)
(* The lowering RULES (high-level node -> index lambda) stated as          *)
(* functions from node parameters to scalar-expression ASTs, and their     *)
(* correctness  Ev(Lower(n)) = Val(n)  model-checked over the whole        *)
(* bounded parameter space -- a design-level statement that is independent *)
(* of pytato's code (C02 validates the REAL lowerings against the same     *)
(* semantics).  The rules are the textbook ones:                           *)
(*   roll         a[.., (i - shift) mod n, ..]                             *)
(*   transpose    a[j] with j[perm[k]] = i[k]                              *)
(*   stack        If(i_ax = 0, a0[i\ax], If(i_ax = 1, a1[i\ax], ...))      *)
(*   concatenate  If(i_ax < u0, a0[i], If(i_ax < u1, a1[.., i_ax-u0, ..]…))*)
(*   basic index  a[.., start + step*i, ..] / a[.., v mod n, ..]           *)
(*   reshape      a[(f div stride_k) mod shape_k ...], f the flat index    *)
(*                (both orders; pytato's axis grouping is an optimisation  *)
(*                of this rule)                                            *)
(*   binary op    op(a[bidx], b[bidx]), broadcast: unit axes are indexed 0 *)
(*   where        If(c[bidx], a[bidx], b[bidx])                            *)
(*   reduction    red(op, r_k < len(axis_k), a[.. r_k at reduced axes ..]) *)
(*   einsum       sum over the reduction indices of the product of the     *)
(*                operands' subscripts (unit operand axes indexed 0)       *)
(*   adv. index   a[.., idxarr[b] mod n, ..] with NumPy's placement of the  *)
(*                broadcast index dimensions (first advanced position if    *)
(*                the advanced items are contiguous, else in front)         *)
(* A state is one instance (kind, operand shape(s), parameters); the       *)
(* operand values are an injective valuation (flat position), so equality  *)
(* of values is equality of the index mapping.                             *)
(***************************************************************************)
EXTENDS PtSem

CONSTANTS MaxLen, MaxDim      \* axis lengths 0..MaxLen, up to MaxDim axes
CONSTANTS KindsB, Rich        \* second family: instance kinds to enumerate; rich index data

Lens == 0..MaxLen
Shapes == UNION {[1..d -> Lens] : d \in 0..MaxDim}
Perms(d) == {p \in [1..d -> 0..(d - 1)] : \A i, j \in 1..d : i # j => p[i] # p[j]}

C(v) == [k |-> "c", v |-> v]
Ix(d) == [k |-> "ix", d |-> d]
Add2(a, b) == [k |-> "add", c |-> <<a, b>>]
Mul2(a, b) == [k |-> "mul", c |-> <<a, b>>]
Sub(name, idx) == [k |-> "sub", a |-> name, i |-> idx]
Cmp(op, a, b) == [k |-> "cmp", op |-> op, a |-> a, b |-> b]
IfE(c, t, e) == [k |-> "if", c |-> c, t |-> t, e |-> e]
ModE(a, b) == [k |-> "mod", a |-> a, b |-> b]
DivE(a, b) == [k |-> "fdiv", a |-> a, b |-> b]

IxAll(d) == [q \in 1..d |-> Ix(q - 1)]

\* ---- the rules -----------------------------------------------------------
LowerRoll(shape, shift, ax) ==
  Sub("_in0", [q \in 1..Len(shape) |->
        IF q = ax + 1 THEN ModE(Add2(Ix(q - 1), C(-shift)), C(shape[q])) ELSE Ix(q - 1)])

LowerPerm(d, perm) ==
  \* operand axis j is result axis q with perm[q] = j
  Sub("_in0", [j \in 1..d |-> Ix((CHOOSE q \in 1..d : perm[q] + 1 = j) - 1)])

RECURSIVE StackExpr(_, _, _, _)
StackExpr(n, d, ax, q) ==      \* d = result rank, q = operand number (1-based)
  LET sub == Sub(IF q = 1 THEN "_in0" ELSE IF q = 2 THEN "_in1" ELSE "_in2",
                 DropAt(IxAll(d), ax + 1))
  IN IF q = n THEN sub ELSE IfE(Cmp("eq", Ix(ax), C(q - 1)), sub, StackExpr(n, d, ax, q + 1))

RECURSIVE ConcatExpr(_, _, _, _, _)
ConcatExpr(exts, d, ax, q, off) ==
  LET idx == [z \in 1..d |-> IF z = ax + 1 THEN Add2(Ix(z - 1), C(-off)) ELSE Ix(z - 1)]
      sub == Sub(IF q = 1 THEN "_in0" ELSE IF q = 2 THEN "_in1" ELSE "_in2", idx)
  IN IF q = Len(exts) THEN sub
     ELSE IfE(Cmp("lt", Ix(ax), C(off + exts[q])), sub,
              ConcatExpr(exts, d, ax, q + 1, off + exts[q]))

\* items: [t |-> "int", v] | [t |-> "nslice", start, stop, step]; result axis counter
RECURSIVE IndexSubs(_, _, _, _)
IndexSubs(items, shape, j, outax) ==
  IF j > Len(items) THEN <<>>
  ELSE IF items[j].t = "int"
       THEN <<ModE(C(items[j].v), C(shape[j]))>> \o IndexSubs(items, shape, j + 1, outax)
       ELSE <<Add2(C(items[j].start), Mul2(C(items[j].step), Ix(outax)))>>
            \o IndexSubs(items, shape, j + 1, outax + 1)
LowerIndex(items, shape) == Sub("_in0", IndexSubs(items, shape, 1, 0))

LowerReshape(old, new, order) ==
  LET flat == [k |-> "add", c |-> <<C(0)>> \o
                 [q \in 1..Len(new) |-> Mul2(Ix(q - 1), C(Stride(new, q, order)))]]
  IN Sub("_in0", [j \in 1..Len(old) |->
        ModE(DivE(flat, C(Stride(old, j, order))), C(old[j]))])

RECURSIVE DropAxes2(_, _, _)
DropAxes2(s, axes, k) ==   \* remove the positions in axes (0-based set) from s
  IF k > Len(s) THEN <<>>
  ELSE (IF (k - 1) \in axes THEN <<>> ELSE <<s[k]>>) \o DropAxes2(s, axes, k + 1)

Rv(n) == [k |-> "rv", n |-> n]
InName(q) == IF q = 1 THEN "_in0" ELSE IF q = 2 THEN "_in1" ELSE "_in2"

\* subscripts of an operand of shape s inside a result of rank d (right-aligned;
\* an operand axis of length 1 is indexed 0)
BSubs(s, d) == [j \in 1..Len(s) |-> IF s[j] = 1 THEN C(0) ELSE Ix(d - Len(s) + j - 1)]

LowerBinop(op, s1, s2, rs) ==
  LET a == Sub("_in0", BSubs(s1, Len(rs))) b == Sub("_in1", BSubs(s2, Len(rs))) IN
  CASE op = "add" -> Add2(a, b)
    [] op = "mul" -> Mul2(a, b)
    [] op = "sub" -> [k |-> "sub2", a |-> a, b |-> b]
    [] op = "lt"  -> Cmp("lt", a, b)

LowerWhere(sc, s1, s2, rs) ==
  IfE(Sub("_in0", BSubs(sc, Len(rs))), Sub("_in1", BSubs(s1, Len(rs))),
      Sub("_in2", BSubs(s2, Len(rs))))

\* reduction over the axes in the ascending sequence rax (0-based) of an operand of shape s
LowerReduce(op, s, rax) ==
  LET isred(j) == \E q \in 1..Len(rax) : rax[q] + 1 = j
      rnum(j)  == CHOOSE q \in 1..Len(rax) : rax[q] + 1 = j
      kept(j)  == Cardinality({w \in 1..(j - 1) : ~isred(w)})       \* result axis of operand axis j
  IN [k |-> "red", op |-> op,
      b |-> [q \in 1..Len(rax) |-> [v |-> q, lo |-> C(0), hi |-> C(s[rax[q] + 1])]],
      a |-> Sub("_in0", [j \in 1..Len(s) |-> IF isred(j) THEN Rv(rnum(j)) ELSE Ix(kept(j))])]

\* einsum: acc[a][j] = [t |-> "e" | "r", d |-> k]; ext[d+1] = extent of reduction index d
LowerEinsum(acc, shapes, ext) ==
  LET term(a) == Sub(InName(a), [j \in 1..Len(acc[a]) |->
                   IF shapes[a][j] = 1 THEN C(0)
                   ELSE IF acc[a][j].t = "e" THEN Ix(acc[a][j].d) ELSE Rv(acc[a][j].d + 1)])
      prod == [k |-> "mul", c |-> [a \in 1..Len(acc) |-> term(a)]]
  IN IF Len(ext) = 0 THEN prod
     ELSE [k |-> "red", op |-> "sum",
           b |-> [q \in 1..Len(ext) |-> [v |-> q, lo |-> C(0), hi |-> C(ext[q])]],
           a |-> prod]

\* advanced indexing: items int / nslice / arr (arr.n = operand number 2, 3 of the
\* index arrays); ishapes[n] = shape of operand n
LowerAdv(items, ashape, ishapes) ==
  LET A      == AdvPositions(items)
      aseq   == SeqOfSet(A)
      bsh    == BShapeAll([q \in 1..Len(aseq) |->
                   IF items[aseq[q]].t = "arr" THEN ishapes[items[aseq[q]].n] ELSE <<>>])
      nb     == Len(bsh)
      contig == AdvContiguous(items)
      nsl(j) == Cardinality({q \in 1..(j - 1) : IsSliceItem(items[q])})
      bstart == IF contig THEN nsl(SetMin(A)) ELSE 0
      spos(j) == IF contig THEN (IF j < SetMin(A) THEN nsl(j) ELSE nsl(j) + nb)
                 ELSE nb + nsl(j)
      \* subscripts of an index array of shape s within the broadcast block
      asub(s) == [z \in 1..Len(s) |-> IF s[z] = 1 THEN C(0)
                                       ELSE Ix(bstart + nb - Len(s) + z - 1)]
  IN Sub("_in0", [j \in 1..Len(items) |->
        LET it == items[j] IN
        CASE it.t = "int" -> ModE(C(it.v), C(ashape[j]))
          [] it.t = "nslice" -> Add2(C(it.start), Mul2(C(it.step), Ix(spos(j))))
          [] it.t = "arr" -> ModE(Sub(InName(it.n), asub(ishapes[it.n])), C(ashape[j]))])

\* ---- instances -------------------------------------------------------------
NSlices(n) ==   \* normalised slices as pytato stores them (CPython's indices())
  {[t |-> "nslice", start |-> s, stop |-> e, step |-> k] :
      s \in -1..n, e \in -1..n, k \in {-2, -1, 1, 2}}
  \cap {sl \in [t : {"nslice"}, start : -1..n, stop : -1..n, step : {-2, -1, 1, 2}] :
          IF sl.step > 0 THEN sl.start \in 0..n /\ sl.stop \in 0..n
          ELSE sl.start \in -1..(n - 1) /\ sl.stop \in -1..(n - 1)}
Ints(n) == {[t |-> "int", v |-> v] : v \in -n..(n - 1)}

VARIABLES inst
Init ==
  \/ \E s \in Shapes, ax \in 0..(MaxDim - 1), sh \in -(2 * MaxLen + 1)..(2 * MaxLen + 1) :
        ax < Len(s) /\ inst = [kind |-> "roll", shape |-> s, axis |-> ax, shift |-> sh]
  \/ \E s \in Shapes : \E p \in Perms(Len(s)) :
        inst = [kind |-> "perm", shape |-> s, perm |-> p]
  \/ \E s \in Shapes, n \in 1..3, ax \in 0..MaxDim :
        ax <= Len(s) /\ Len(s) < MaxDim /\ inst = [kind |-> "stack", shape |-> s, n |-> n, axis |-> ax]
  \/ \E s \in Shapes, ax \in 0..(MaxDim - 1), e2 \in Lens, e3 \in Lens \cup {-1} :
        ax < Len(s) /\ inst = [kind |-> "concat", shape |-> s, axis |-> ax,
                               exts |-> IF e3 = -1 THEN <<s[ax + 1], e2>> ELSE <<s[ax + 1], e2, e3>>]
  \/ \E s \in Shapes : Len(s) = 1 /\ \E it \in NSlices(s[1]) \cup Ints(s[1]) :
        inst = [kind |-> "index", shape |-> s, items |-> <<it>>]
  \/ \E s \in Shapes : Len(s) = 2 /\ \E i1 \in Ints(s[1]) \cup {[t |-> "nslice", start |-> s[1] - 1, stop |-> -1, step |-> -1]} :
        \E i2 \in NSlices(s[2]) : i2.step \in {-1, 2} /\
        inst = [kind |-> "index", shape |-> s, items |-> <<i1, i2>>]
  \/ \E old \in Shapes, new \in Shapes, o \in {"C", "F"} :
        SizeOf(old) = SizeOf(new) /\ inst = [kind |-> "reshape", shape |-> old, new |-> new, order |-> o]
Next == UNCHANGED inst

\* an injective valuation: element f (flat, C order) of operand q has value q*1000 + f
InVal(q, s) == [f \in 1..SizeOf(s) |-> OFF + q * 1000 + f]
InNode(q, s) == [kind |-> "in", name |-> (IF q = 1 THEN "a" ELSE IF q = 2 THEN "b" ELSE "c"),
                 shape |-> s, dtype |-> "f8"]
IL(expr, bind, shape) == [kind |-> "il", expr |-> expr, bind |-> bind, shape |-> shape, dtype |-> "f8"]

ResultShape(i) ==
  CASE i.kind = "roll" -> i.shape
    [] i.kind = "perm" -> [q \in 1..Len(i.shape) |-> i.shape[i.perm[q] + 1]]
    [] i.kind = "stack" -> InsertAt(i.shape, i.axis + 1, i.n)
    [] i.kind = "concat" -> [i.shape EXCEPT ![i.axis + 1] = SumSeq(i.exts)]
    [] i.kind = "index" -> IndexResultShape(i.items, i.shape, <<>>)
    [] i.kind = "reshape" -> i.new

OperandShapes(i) ==
  CASE i.kind = "stack" -> [q \in 1..i.n |-> i.shape]
    [] i.kind = "concat" -> [q \in 1..Len(i.exts) |-> [i.shape EXCEPT ![i.axis + 1] = i.exts[q]]]
    [] OTHER -> <<i.shape>>

HLNode(i, rs) ==
  CASE i.kind = "roll" -> [kind |-> "roll", a |-> 1, shift |-> i.shift, axis |-> i.axis, shape |-> rs, dtype |-> "f8"]
    [] i.kind = "perm" -> [kind |-> "perm", a |-> 1, perm |-> i.perm, shape |-> rs, dtype |-> "f8"]
    [] i.kind = "stack" -> [kind |-> "stack", arrays |-> [q \in 1..i.n |-> q], axis |-> i.axis, shape |-> rs, dtype |-> "f8"]
    [] i.kind = "concat" -> [kind |-> "concat", arrays |-> [q \in 1..Len(i.exts) |-> q], axis |-> i.axis, shape |-> rs, dtype |-> "f8"]
    [] i.kind = "index" -> [kind |-> "index", a |-> 1, idx |-> i.items, shape |-> rs, dtype |-> "f8"]
    [] i.kind = "reshape" -> [kind |-> "reshape", a |-> 1, order |-> i.order, shape |-> rs, dtype |-> "f8"]

Lowered(i, rs) ==
  CASE i.kind = "roll" -> LowerRoll(i.shape, i.shift, i.axis)
    [] i.kind = "perm" -> LowerPerm(Len(i.shape), i.perm)
    [] i.kind = "stack" -> StackExpr(i.n, Len(rs), i.axis, 1)
    [] i.kind = "concat" -> ConcatExpr(i.exts, Len(rs), i.axis, 1, 0)
    [] i.kind = "index" -> LowerIndex(i.items, i.shape)
    [] i.kind = "reshape" -> LowerReshape(i.shape, i.new, i.order)

Bind(n) == IF n = 1 THEN [_in0 |-> 1] ELSE IF n = 2 THEN [_in0 |-> 1, _in1 |-> 2]
           ELSE [_in0 |-> 1, _in1 |-> 2, _in2 |-> 3]

LowerCorrect ==
  LET os == OperandShapes(inst)
      n  == Len(os)
      rs == ResultShape(inst)
      ins == [q \in 1..n |-> InNode(q, os[q])]
      g  == [nodes |-> ins \o <<HLNode(inst, rs), IL(Lowered(inst, rs), Bind(n), rs)>>,
             outs |-> <<>>, funcs |-> <<>>]
      inp == [nm \in {"a", "b", "c"} |-> IF nm = "a" THEN InVal(1, os[1])
                                          ELSE IF nm = "b" /\ n >= 2 THEN InVal(2, os[2])
                                          ELSE IF nm = "c" /\ n >= 3 THEN InVal(3, os[3])
                                          ELSE <<>>]
      v == Val(g, inp, FALSE)
  IN /\ v[n + 1] = v[n + 2]
     /\ NoPoison(v[n + 2])
     /\ Len(v[n + 1]) = SizeOf(rs)

(***************************************************************************)
(* Second family of instances (configs PtLowerB*.cfg, INIT Init2,          *)
(* INVARIANT LowerCorrect2): arithmetic with broadcasting, where,          *)
(* reductions, einsum and advanced indexing.                               *)
(***************************************************************************)
NonEmptyAscSeqs(d) ==   \* non-empty ascending sequences over 0..d-1
  {q \in UNION {[1..k -> 0..(d - 1)] : k \in 1..d} :
      \A i, j \in DOMAIN q : i < j => q[i] < q[j]}

E(d) == [t |-> "e", d |-> d]
R(d) == [t |-> "r", d |-> d]
EinTemplates == {
  <<<<E(0), R(0)>>, <<R(0)>>>>,                     \* ij,j->i
  <<<<E(0), R(0)>>, <<R(0), E(1)>>>>,               \* ij,jk->ik
  <<<<R(0)>>, <<R(0)>>>>,                           \* i,i->
  <<<<E(0), E(1)>>, <<E(0), E(1)>>>>,               \* ij,ij->ij
  <<<<E(1), E(0)>>>>,                               \* ij->ji
  <<<<R(0), R(1)>>>>,                               \* ij->
  <<<<E(0), R(0)>>, <<E(0), R(0)>>, <<R(0)>>>>,     \* ij,ij,j->i
  <<<<>>, <<E(0)>>>>,                               \* ,i->i
  <<<<E(0), R(0)>>, <<E(0)>>>> }                    \* ij,i->i  (reduction fixed by one operand)

\* the lengths of all occurrences of index (t, d) in the operands
OccLens(acc, shapes, t, d) ==
  UNION {{shapes[a][j] : j \in {q \in DOMAIN acc[a] : acc[a][q].t = t /\ acc[a][q].d = d}}
         : a \in DOMAIN acc}
ExtOf(L) == IF L \ {1} = {} THEN 1 ELSE CHOOSE x \in L \ {1} : TRUE
NumOf(acc, t) ==
  LET ds == UNION {{acc[a][j].d : j \in {q \in DOMAIN acc[a] : acc[a][q].t = t}}
                   : a \in DOMAIN acc}
  IN IF ds = {} THEN 0 ELSE 1 + (CHOOSE m \in ds : \A z \in ds : z <= m)

IdxArrShapes == IF Rich THEN {<<>>, <<1>>, <<2>>, <<2, 1>>, <<1, 2>>} ELSE {<<1>>, <<2>>}
IdxVals(n) == IF Rich THEN (-n)..(n - 1) ELSE {-1, 0}
AdvItems(n) == (IF Rich THEN Ints(n) ELSE {[t |-> "int", v |-> v] : v \in {-1, 0}})
                       \cup {[t |-> "nslice", start |-> 0, stop |-> n, step |-> 1],
                             [t |-> "nslice", start |-> n - 1, stop |-> -1, step |-> -1]}
                       \cup {[t |-> "arr", n |-> q] : q \in {2, 3}}

Init2 ==
  \/ \E s1 \in Shapes, s2 \in Shapes, op \in {"add", "sub", "mul", "lt"} :
        "binop" \in KindsB /\ Broadcastable2(s1, s2) /\ inst = [kind |-> "binop", op |-> op, s1 |-> s1, s2 |-> s2]
  \/ \E sc \in Shapes, s1 \in Shapes, s2 \in Shapes :
        /\ "where" \in KindsB /\ Len(sc) <= 2 /\ Len(s1) <= 2 /\ Len(s2) <= 2
        /\ BroadcastableAll(<<sc, s1, s2>>)
        /\ inst = [kind |-> "where", sc |-> sc, s1 |-> s1, s2 |-> s2]
  \/ \E s \in Shapes, op \in {"sum", "product", "max"} :
        /\ "reduce" \in KindsB /\ Len(s) >= 1 /\ (op = "max" => \A j \in DOMAIN s : s[j] >= 1)
        /\ \E rax \in NonEmptyAscSeqs(Len(s)) :
              inst = [kind |-> "reduce", op |-> op, shape |-> s, rax |-> rax]
  \/ \E acc \in EinTemplates :
        \E shapes \in [DOMAIN acc -> Shapes] :
          /\ "einsum" \in KindsB /\ \A a \in DOMAIN acc : Len(shapes[a]) = Len(acc[a])
          /\ \A t \in {"e", "r"}, d \in 0..1 :
                Cardinality(OccLens(acc, shapes, t, d) \ {1}) <= 1
          /\ inst = [kind |-> "einsum", acc |-> acc, shapes |-> shapes]
  \/ \E s \in Shapes :
        /\ "adv" \in KindsB /\ Len(s) \in 2..3 /\ \A j \in DOMAIN s : s[j] >= 1
        /\ (~Rich => Len(s) = 3)
        /\ \E items \in [1..Len(s) -> UNION {AdvItems(s[j]) : j \in DOMAIN s}] :
             /\ \A j \in DOMAIN s : items[j] \in AdvItems(s[j])
             /\ \E j \in DOMAIN s : items[j].t = "arr" /\ items[j].n = 2
             /\ \E sh2 \in IdxArrShapes, sh3 \in IdxArrShapes :
                  /\ (\A j \in DOMAIN s : items[j].t = "arr" => items[j].n = 2) => sh3 = <<>>
                  /\ LET used == {items[j].n : j \in {q \in DOMAIN s : items[q].t = "arr"}}
                         ish == [q \in 1..3 |-> IF q = 2 THEN sh2 ELSE IF q = 3 THEN sh3 ELSE <<>>]
                         lim(q) == CHOOSE n \in {s[j] : j \in {z \in DOMAIN s :
                                       items[z].t = "arr" /\ items[z].n = q}} :
                                     \A m \in {s[j] : j \in {z \in DOMAIN s :
                                       items[z].t = "arr" /\ items[z].n = q}} : n <= m
                     IN /\ BroadcastableAll([q \in 1..Cardinality(used) |->
                                               ish[SeqOfSet(used)[q]]])
                        /\ \E v2 \in [1..SizeOf(sh2) -> IdxVals(lim(2))] :
                           \E v3 \in IF 3 \in used
                                       THEN [1..SizeOf(sh3) -> IdxVals(lim(3))]
                                       ELSE {<<>>} :
                             inst = [kind |-> "adv", shape |-> s, items |-> items,
                                     ishapes |-> ish, v2 |-> v2, v3 |-> v3,
                                     nops |-> IF 3 \in used THEN 3 ELSE 2]

OperandShapes2(i) ==
  CASE i.kind = "binop" -> <<i.s1, i.s2>>
    [] i.kind = "where" -> <<i.sc, i.s1, i.s2>>
    [] i.kind = "reduce" -> <<i.shape>>
    [] i.kind = "einsum" -> i.shapes
    [] i.kind = "adv" -> [q \in 1..i.nops |-> IF q = 1 THEN i.shape ELSE i.ishapes[q]]

EinResultShape(i) ==
  [q \in 1..NumOf(i.acc, "e") |-> ExtOf(OccLens(i.acc, i.shapes, "e", q - 1))]
EinExt(i) ==
  [q \in 1..NumOf(i.acc, "r") |-> ExtOf(OccLens(i.acc, i.shapes, "r", q - 1))]

ResultShape2(i) ==
  CASE i.kind = "binop" -> BShape2(i.s1, i.s2)
    [] i.kind = "where" -> BShapeAll(<<i.sc, i.s1, i.s2>>)
    [] i.kind = "reduce" -> DropAxes2(i.shape, SeqRange(i.rax), 1)
    [] i.kind = "einsum" -> EinResultShape(i)
    [] i.kind = "adv" -> IndexResultShape(i.items, i.shape, i.ishapes)

HLNode2(i, rs) ==
  CASE i.kind = "binop" -> [kind |-> "binop", op |-> i.op, x1 |-> [n |-> 1], x2 |-> [n |-> 2],
                            shape |-> rs, dtype |-> "f8"]
    [] i.kind = "where" -> [kind |-> "where", c |-> [n |-> 1], t |-> [n |-> 2], e |-> [n |-> 3],
                            shape |-> rs, dtype |-> "f8"]
    [] i.kind = "reduce" -> [kind |-> "reduce", op |-> i.op, x |-> 1, axes |-> i.rax,
                             shape |-> rs, dtype |-> "f8"]
    [] i.kind = "einsum" -> [kind |-> "einsum", args |-> [a \in DOMAIN i.acc |-> a],
                             acc |-> i.acc, nred |-> NumOf(i.acc, "r"),
                             shape |-> rs, dtype |-> "f8"]
    [] i.kind = "adv" -> [kind |-> "index", a |-> 1, idx |-> i.items, shape |-> rs,
                          dtype |-> "f8"]

Lowered2(i, rs) ==
  CASE i.kind = "binop" -> LowerBinop(i.op, i.s1, i.s2, rs)
    [] i.kind = "where" -> LowerWhere(i.sc, i.s1, i.s2, rs)
    [] i.kind = "reduce" -> LowerReduce(i.op, i.shape, i.rax)
    [] i.kind = "einsum" -> LowerEinsum(i.acc, i.shapes, EinExt(i))
    [] i.kind = "adv" -> LowerAdv(i.items, i.shape, i.ishapes)

LowerCorrect2 ==
  LET os == OperandShapes2(inst)
      n  == Len(os)
      rs == ResultShape2(inst)
      ins == [q \in 1..n |-> InNode(q, os[q])]
      g  == [nodes |-> ins \o <<HLNode2(inst, rs), IL(Lowered2(inst, rs), Bind(n), rs)>>,
             outs |-> <<>>, funcs |-> <<>>]
      data(q) == IF q <= n THEN InVal(q, os[q]) ELSE <<>>
      inp == [nm \in {"a", "b", "c"} |->
                IF inst.kind = "adv" /\ nm = "b" THEN inst.v2
                ELSE IF inst.kind = "adv" /\ nm = "c" THEN inst.v3
                ELSE IF inst.kind = "where" /\ nm = "a"
                     THEN [f \in 1..SizeOf(os[1]) |-> f % 2]      \* a boolean condition
                ELSE data(IF nm = "a" THEN 1 ELSE IF nm = "b" THEN 2 ELSE 3)]
      v == Val(g, inp, FALSE)
  IN /\ v[n + 1] = v[n + 2]
     /\ NoPoison(v[n + 2])
     /\ Len(v[n + 1]) = SizeOf(rs)
=============================================================================
