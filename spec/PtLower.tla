------------------------------- MODULE PtLower -------------------------------
(***************************************************************************)
(* The lowering RULES (high-level node -> index lambda) stated as          *)
(* functions from node parameters to scalar-expression ASTs, and their     *)
(* correctness  Ev(Lower(n)) = Val(n)  model-checked over the whole        *)
(* bounded parameter space -- a design-level statement that is independent *)
(* of pytato's code (C02 validates the REAL lowerings against the same     *)
(* semantics).  The rules are the textbook ones:                           *)
(*   roll         a[.., (i - shift) mod n, ..]                             *)
(*   transpose    a[j] with j[perm[k]] = i[k]                              *)
(*   stack        If(i_ax = 0, a0[i\ax], If(i_ax = 1, a1[i\ax], ...))      *)
(*   concatenate  If(i_ax < u0, a0[i], If(i_ax < u1, a1[.., i_ax-u0, ..]…))*)
(*   basic index  a[.., start + step*i, ..] / a[.., v mod n, ..]           *)
(*   reshape      a[(f div stride_k) mod shape_k ...], f the flat index    *)
(*                (both orders; pytato's axis grouping is an optimisation  *)
(*                of this rule)                                            *)
(* A state is one instance (kind, operand shape(s), parameters); the       *)
(* operand values are an injective valuation (flat position), so equality  *)
(* of values is equality of the index mapping.                             *)
(***************************************************************************)
EXTENDS PtSem

CONSTANTS MaxLen, MaxDim      \* axis lengths 0..MaxLen, up to MaxDim axes

Lens == 0..MaxLen
Shapes == UNION {[1..d -> Lens] : d \in 0..MaxDim}
Perms(d) == {p \in [1..d -> 0..(d - 1)] : \A i, j \in 1..d : i # j => p[i] # p[j]}

C(v) == [k |-> "c", v |-> v]
Ix(d) == [k |-> "ix", d |-> d]
Add2(a, b) == [k |-> "add", c |-> <<a, b>>]
Mul2(a, b) == [k |-> "mul", c |-> <<a, b>>]
Sub(name, idx) == [k |-> "sub", a |-> name, i |-> idx]
Cmp(op, a, b) == [k |-> "cmp", op |-> op, a |-> a, b |-> b]
IfE(c, t, e) == [k |-> "if", c |-> c, t |-> t, e |-> e]
ModE(a, b) == [k |-> "mod", a |-> a, b |-> b]
DivE(a, b) == [k |-> "fdiv", a |-> a, b |-> b]

IxAll(d) == [q \in 1..d |-> Ix(q - 1)]

\* ---- the rules -----------------------------------------------------------
LowerRoll(shape, shift, ax) ==
  Sub("_in0", [q \in 1..Len(shape) |->
        IF q = ax + 1 THEN ModE(Add2(Ix(q - 1), C(-shift)), C(shape[q])) ELSE Ix(q - 1)])

LowerPerm(d, perm) ==
  \* operand axis j is result axis q with perm[q] = j
  Sub("_in0", [j \in 1..d |-> Ix((CHOOSE q \in 1..d : perm[q] + 1 = j) - 1)])

RECURSIVE StackExpr(_, _, _, _)
StackExpr(n, d, ax, q) ==      \* d = result rank, q = operand number (1-based)
  LET sub == Sub(IF q = 1 THEN "_in0" ELSE IF q = 2 THEN "_in1" ELSE "_in2",
                 DropAt(IxAll(d), ax + 1))
  IN IF q = n THEN sub ELSE IfE(Cmp("eq", Ix(ax), C(q - 1)), sub, StackExpr(n, d, ax, q + 1))

RECURSIVE ConcatExpr(_, _, _, _, _)
ConcatExpr(exts, d, ax, q, off) ==
  LET idx == [z \in 1..d |-> IF z = ax + 1 THEN Add2(Ix(z - 1), C(-off)) ELSE Ix(z - 1)]
      sub == Sub(IF q = 1 THEN "_in0" ELSE IF q = 2 THEN "_in1" ELSE "_in2", idx)
  IN IF q = Len(exts) THEN sub
     ELSE IfE(Cmp("lt", Ix(ax), C(off + exts[q])), sub,
              ConcatExpr(exts, d, ax, q + 1, off + exts[q]))

\* items: [t |-> "int", v] | [t |-> "nslice", start, stop, step]; result axis counter
RECURSIVE IndexSubs(_, _, _, _)
IndexSubs(items, shape, j, outax) ==
  IF j > Len(items) THEN <<>>
  ELSE IF items[j].t = "int"
       THEN <<ModE(C(items[j].v), C(shape[j]))>> \o IndexSubs(items, shape, j + 1, outax)
       ELSE <<Add2(C(items[j].start), Mul2(C(items[j].step), Ix(outax)))>>
            \o IndexSubs(items, shape, j + 1, outax + 1)
LowerIndex(items, shape) == Sub("_in0", IndexSubs(items, shape, 1, 0))

LowerReshape(old, new, order) ==
  LET flat == [k |-> "add", c |-> <<C(0)>> \o
                 [q \in 1..Len(new) |-> Mul2(Ix(q - 1), C(Stride(new, q, order)))]]
  IN Sub("_in0", [j \in 1..Len(old) |->
        ModE(DivE(flat, C(Stride(old, j, order))), C(old[j]))])

\* ---- instances -------------------------------------------------------------
NSlices(n) ==   \* normalised slices as pytato stores them (CPython's indices())
  {[t |-> "nslice", start |-> s, stop |-> e, step |-> k] :
      s \in -1..n, e \in -1..n, k \in {-2, -1, 1, 2}}
  \cap {sl \in [t : {"nslice"}, start : -1..n, stop : -1..n, step : {-2, -1, 1, 2}] :
          IF sl.step > 0 THEN sl.start \in 0..n /\ sl.stop \in 0..n
          ELSE sl.start \in -1..(n - 1) /\ sl.stop \in -1..(n - 1)}
Ints(n) == {[t |-> "int", v |-> v] : v \in -n..(n - 1)}

VARIABLES inst
Init ==
  \/ \E s \in Shapes, ax \in 0..(MaxDim - 1), sh \in -(2 * MaxLen + 1)..(2 * MaxLen + 1) :
        ax < Len(s) /\ inst = [kind |-> "roll", shape |-> s, axis |-> ax, shift |-> sh]
  \/ \E s \in Shapes : \E p \in Perms(Len(s)) :
        inst = [kind |-> "perm", shape |-> s, perm |-> p]
  \/ \E s \in Shapes, n \in 1..3, ax \in 0..MaxDim :
        ax <= Len(s) /\ Len(s) < MaxDim /\ inst = [kind |-> "stack", shape |-> s, n |-> n, axis |-> ax]
  \/ \E s \in Shapes, ax \in 0..(MaxDim - 1), e2 \in Lens, e3 \in Lens \cup {-1} :
        ax < Len(s) /\ inst = [kind |-> "concat", shape |-> s, axis |-> ax,
                               exts |-> IF e3 = -1 THEN <<s[ax + 1], e2>> ELSE <<s[ax + 1], e2, e3>>]
  \/ \E s \in Shapes : Len(s) = 1 /\ \E it \in NSlices(s[1]) \cup Ints(s[1]) :
        inst = [kind |-> "index", shape |-> s, items |-> <<it>>]
  \/ \E s \in Shapes : Len(s) = 2 /\ \E i1 \in Ints(s[1]) \cup {[t |-> "nslice", start |-> s[1] - 1, stop |-> -1, step |-> -1]} :
        \E i2 \in NSlices(s[2]) : i2.step \in {-1, 2} /\
        inst = [kind |-> "index", shape |-> s, items |-> <<i1, i2>>]
  \/ \E old \in Shapes, new \in Shapes, o \in {"C", "F"} :
        SizeOf(old) = SizeOf(new) /\ inst = [kind |-> "reshape", shape |-> old, new |-> new, order |-> o]
Next == UNCHANGED inst

\* an injective valuation: element f (flat, C order) of operand q has value q*1000 + f
InVal(q, s) == [f \in 1..SizeOf(s) |-> OFF + q * 1000 + f]
InNode(q, s) == [kind |-> "in", name |-> (IF q = 1 THEN "a" ELSE IF q = 2 THEN "b" ELSE "c"),
                 shape |-> s, dtype |-> "f8"]
IL(expr, bind, shape) == [kind |-> "il", expr |-> expr, bind |-> bind, shape |-> shape, dtype |-> "f8"]

ResultShape(i) ==
  CASE i.kind = "roll" -> i.shape
    [] i.kind = "perm" -> [q \in 1..Len(i.shape) |-> i.shape[i.perm[q] + 1]]
    [] i.kind = "stack" -> InsertAt(i.shape, i.axis + 1, i.n)
    [] i.kind = "concat" -> [i.shape EXCEPT ![i.axis + 1] = SumSeq(i.exts)]
    [] i.kind = "index" -> IndexResultShape(i.items, i.shape, <<>>)
    [] i.kind = "reshape" -> i.new

OperandShapes(i) ==
  CASE i.kind = "stack" -> [q \in 1..i.n |-> i.shape]
    [] i.kind = "concat" -> [q \in 1..Len(i.exts) |-> [i.shape EXCEPT ![i.axis + 1] = i.exts[q]]]
    [] OTHER -> <<i.shape>>

HLNode(i, rs) ==
  CASE i.kind = "roll" -> [kind |-> "roll", a |-> 1, shift |-> i.shift, axis |-> i.axis, shape |-> rs, dtype |-> "f8"]
    [] i.kind = "perm" -> [kind |-> "perm", a |-> 1, perm |-> i.perm, shape |-> rs, dtype |-> "f8"]
    [] i.kind = "stack" -> [kind |-> "stack", arrays |-> [q \in 1..i.n |-> q], axis |-> i.axis, shape |-> rs, dtype |-> "f8"]
    [] i.kind = "concat" -> [kind |-> "concat", arrays |-> [q \in 1..Len(i.exts) |-> q], axis |-> i.axis, shape |-> rs, dtype |-> "f8"]
    [] i.kind = "index" -> [kind |-> "index", a |-> 1, idx |-> i.items, shape |-> rs, dtype |-> "f8"]
    [] i.kind = "reshape" -> [kind |-> "reshape", a |-> 1, order |-> i.order, shape |-> rs, dtype |-> "f8"]

Lowered(i, rs) ==
  CASE i.kind = "roll" -> LowerRoll(i.shape, i.shift, i.axis)
    [] i.kind = "perm" -> LowerPerm(Len(i.shape), i.perm)
    [] i.kind = "stack" -> StackExpr(i.n, Len(rs), i.axis, 1)
    [] i.kind = "concat" -> ConcatExpr(i.exts, Len(rs), i.axis, 1, 0)
    [] i.kind = "index" -> LowerIndex(i.items, i.shape)
    [] i.kind = "reshape" -> LowerReshape(i.shape, i.new, i.order)

Bind(n) == IF n = 1 THEN [_in0 |-> 1] ELSE IF n = 2 THEN [_in0 |-> 1, _in1 |-> 2]
           ELSE [_in0 |-> 1, _in1 |-> 2, _in2 |-> 3]

LowerCorrect ==
  LET os == OperandShapes(inst)
      n  == Len(os)
      rs == ResultShape(inst)
      ins == [q \in 1..n |-> InNode(q, os[q])]
      g  == [nodes |-> ins \o <<HLNode(inst, rs), IL(Lowered(inst, rs), Bind(n), rs)>>,
             outs |-> <<>>, funcs |-> <<>>]
      inp == [nm \in {"a", "b", "c"} |-> IF nm = "a" THEN InVal(1, os[1])
                                          ELSE IF nm = "b" /\ n >= 2 THEN InVal(2, os[2])
                                          ELSE IF nm = "c" /\ n >= 3 THEN InVal(3, os[3])
                                          ELSE <<>>]
      v == Val(g, inp, FALSE)
  IN /\ v[n + 1] = v[n + 2]
     /\ NoPoison(v[n + 2])
     /\ Len(v[n + 1]) = SizeOf(rs)
=============================================================================
