CONSTANTS
  MaxN = 5
  MaxAr = 2
INIT Init
NEXT Next
INVARIANTS Converse Edges Counts Topo Mat SendConvention
CHECK_DEADLOCK FALSE
