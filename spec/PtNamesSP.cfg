CONSTANTS
  SPool = {"n", "x", "out", "out_dim0", "res_dim0", "y_dim0", "x_dim0", "acc_x", "_pt_temp", "y_dim0_0", "res"}
  OPool = {"out", "res", "y", "x", "n"}
INIT Init
NEXT Next
CHECK_DEADLOCK FALSE
