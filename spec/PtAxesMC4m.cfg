CONSTANTS
  N = 4
  T = 1
  WithMay = TRUE
  WithRedn = FALSE
INIT Init
NEXT Next
INVARIANTS AllInvariants MovesFromHere
CHECK_DEADLOCK FALSE
