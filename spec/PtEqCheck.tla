------------------------------ MODULE PtEqCheck ------------------------------
(***************************************************************************)
(* Validation module (use E) of C04: every record was observed on the real *)
(* classes; TLC judges it against PtEq and prints one verdict line         *)
(*     <<"V", id, "ok">>                                                   *)
(*     <<"V", id, "fail", "<json: [[proc, clause, i, j, k], ...]>">>       *)
(*     <<"V", id, "machinery:<what>", "<json detail>">>                    *)
(*                                                                         *)
(* rel = "family": nodes/roots = reflective export of all members (one     *)
(*    node list), names, expect = the generator's predicted matrix, obs =  *)
(*    per process [eq, ne, hash, inset, indict, stale].  StructEq is       *)
(*    computed HERE from the export (Classes), never by pytato's ==; the   *)
(*    generator's prediction is a third voice: if it disagrees with        *)
(*    StructEq the harness did not build what the model described, which   *)
(*    is a machinery failure, not a verdict.                               *)
(* rel = "trace": a life-cycle behaviour with the observations made by the *)
(*    harness at every step, folded through LcStep / LcClause.             *)
(***************************************************************************)
EXTENDS PtEq, Json, IOUtils, SequencesExt

Batch == JsonDeserialize(IOEnv.BATCH_FILE)

VARIABLE r
Init == r \in 1..Len(Batch)
Next == UNCHANGED r

Seq2(S) == SetToSeq(S)

FamilyVerdict(rec) ==
  LET bad == BadNodes(rec.nodes) IN
  IF bad # {} THEN
     PrintT(<<"V", rec.id, "machinery:fields",
              ToJson([q \in 1..Cardinality(bad) |->
                        LET k == Seq2(bad)[q] IN
                        [kind |-> rec.nodes[k].kind,
                         fields |-> [z \in DOMAIN rec.nodes[k].f |-> rec.nodes[k].f[z][1]]]])>>)
  ELSE
  LET cls == TLCEval(Classes(rec.nodes, "ident"))
      I   == DOMAIN rec.roots
      SE  == TLCEval([i \in I |-> [j \in I |-> cls[rec.roots[i]] = cls[rec.roots[j]]]])
      mism == {p \in I \X I : SE[p[1]][p[2]] # rec.expect[p[1]][p[2]]}
  IN
  IF mism # {} THEN
     PrintT(<<"V", rec.id, "machinery:spec_mismatch",
              ToJson([q \in 1..Cardinality(mism) |-> Seq2(mism)[q]])>>)
  ELSE
  LET fails == UNION {{<<p>> \o f : f \in FamilyFails(rec.obs[p], SE, I)} : p \in DOMAIN rec.obs}
  IN IF fails = {} THEN PrintT(<<"V", rec.id, "ok">>)
     ELSE PrintT(<<"V", rec.id, "fail",
                   ToJson([q \in 1..Cardinality(fails) |-> Seq2(fails)[q]])>>)

\* ---- life-cycle traces
RECURSIVE Fold(_, _, _, _, _)
Fold(s, evs, k, hasData, caches) ==
  IF k > Len(evs) THEN <<"ok", 0>>
  ELSE LET ev == evs[k] IN
       IF ~LcEnabled(s, ev, 64, 64) THEN <<"machinery:not_enabled", k>>
       ELSE LET cl == LcClause(s, ev, hasData, caches) IN
            IF cl # "ok" THEN <<cl, k>>
            ELSE Fold(LcStep(s, ev), evs, k + 1, hasData, caches)

TraceVerdict(rec) ==
  LET v == Fold(LcInit, rec.evs, 1, rec.hasData, rec.caches) IN
  IF v[1] = "ok" THEN PrintT(<<"V", rec.id, "ok">>)
  ELSE IF v[1] \in {"machinery:not_enabled", "machinery:cache_model"}
       THEN PrintT(<<"V", rec.id, v[1], ToJson(<<v[2]>>)>>)
  ELSE PrintT(<<"V", rec.id, "fail", ToJson(<<<<0, v[1], v[2], v[2]>>>>)>>)

\* ---- event traces of the real EqualityComparer (the clauses of PtEqMemo)
\* event: [c (comparer number), ev, a, b, res]; a, b are node positions of the export
RECURSIVE MemoFold(_, _, _, _, _, _)
MemoFold(evs, k, entered, memo, cls, nodes) ==
  IF k > Len(evs) THEN <<"ok", 0>>
  ELSE LET e == evs[k]
           se == cls[e.a] = cls[e.b] IN
    CASE e.ev = "same" -> IF e.a # e.b THEN <<"machinery:same", k>>
                          ELSE MemoFold(evs, k + 1, entered, memo, cls, nodes)
      [] e.ev = "kind" -> IF nodes[e.a].kind = nodes[e.b].kind THEN <<"machinery:kind", k>>
                          ELSE MemoFold(evs, k + 1, entered, memo, cls, nodes)
      [] e.ev = "enter" -> IF <<e.c, e.a, e.b>> \in entered THEN <<"MemoOncePerPair", k>>
                           ELSE MemoFold(evs, k + 1, entered \cup {<<e.c, e.a, e.b>>}, memo,
                                         cls, nodes)
      [] e.ev = "ret" -> IF e.res # se THEN <<"MemoSound", k>>
                         ELSE MemoFold(evs, k + 1, entered,
                                       memo \cup {<<e.c, e.a, e.b, e.res>>}, cls, nodes)
      [] e.ev = "hit" -> IF <<e.c, e.a, e.b, e.res>> \notin memo THEN <<"MemoHitConsistent", k>>
                         ELSE MemoFold(evs, k + 1, entered, memo, cls, nodes)

MemoVerdict(rec) ==
  LET cls == TLCEval(Classes(rec.nodes, "ident"))
      v == MemoFold(rec.evs, 1, {}, {}, cls, rec.nodes)
      nenter == Cardinality({k \in DOMAIN rec.evs : rec.evs[k].ev = "enter"})
      fin == IF v[1] # "ok" THEN v
             ELSE IF rec.result # (cls[rec.roots[1]] = cls[rec.roots[2]])
                  THEN <<"EqIsStructEq", 0>>
             ELSE IF rec.ncomparers # 1 THEN <<"MemoSingleComparer", rec.ncomparers>>
             ELSE IF nenter > Len(rec.nodes) THEN <<"MemoLinear", nenter>>
             ELSE <<"ok", 0>>
  IN IF fin[1] = "ok" THEN PrintT(<<"V", rec.id, "ok">>)
     ELSE IF fin[1] \in {"machinery:same", "machinery:kind"}
          THEN PrintT(<<"V", rec.id, fin[1], ToJson(<<fin[2]>>)>>)
     ELSE PrintT(<<"V", rec.id, "fail", ToJson(<<<<0, fin[1], fin[2], fin[2]>>>>)>>)

Verdict == LET rec == Batch[r] IN
  CASE rec.rel = "family" -> FamilyVerdict(rec)
    [] rec.rel = "trace"  -> TraceVerdict(rec)
    [] rec.rel = "memo"   -> MemoVerdict(rec)
=============================================================================
