CONSTANTS
  Pool = {"x", "y", "out", "x_dim0", "out_dim0", "_pt_temp", "acc_x", "x_0"}
  NIn = 2
  NOut = 2
  OutIsIn <- T01
INIT GenInit
NEXT GenNext
CONSTRAINT GenConstraint
CHECK_DEADLOCK FALSE
