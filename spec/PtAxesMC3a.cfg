CONSTANTS
  N = 3
  T = 2
  WithMay = TRUE
  WithRedn = FALSE
INIT Init
NEXT Next
PROPERTIES Moves
CHECK_DEADLOCK FALSE
