------------------------------- MODULE PtSubst -------------------------------
(***************************************************************************)
(* Substitution consistency (C13: "a transformation maps every use of a    *)
(* shared node to one and the same result object, returns its argument     *)
(* itself when nothing changes, never creates more distinct nodes than it  *)
(* was given"), decided per (rewriter, node kind, edge kind):              *)
(*                                                                         *)
(* A record holds two graphs over one numbering of Python objects:         *)
(*   a  what an INDEPENDENT reflective substitution of one node X by X'    *)
(*      yields (only the nodes on a path to X are rebuilt, with            *)
(*      dataclasses.replace; no pytato mapper involved)                    *)
(*   b  what the real rewriter (map_and_copy / a CopyMapper subclass       *)
(*      overriding one handler) returned when told to change X only        *)
(* Each graph: n, ch (children, canonical field order, all name spaces:    *)
(* function definitions are nodes), lab (label = type + non-array fields,  *)
(* interned), oid (object number: the same Python object has the same      *)
(* number in a and b), orig (the object belongs to the INPUT graph), root. *)
(* Structural equality is computed here, from labels and children; no      *)
(* pytato == is involved.  One verdict line per record; the set of failing *)
(* clauses travels in the detail position.                                 *)
(***************************************************************************)
EXTENDS Integers, Sequences, FiniteSets, TLC, Json, IOUtils

Batch == JsonDeserialize(IOEnv.BATCH_FILE)
VARIABLE r
Init == r \in 1..Len(Batch)
Next == UNCHANGED r

\* structural class of node k of g: the label and the classes of the children
RECURSIVE Cls(_, _)
Cls(g, k) == <<g.lab[k], [i \in 1..Len(g.ch[k]) |-> Cls(g, g.ch[k][i])]>>

Nodes(g) == 1..g.n
ClsMap(g) == [k \in Nodes(g) |-> Cls(g, k)]

Clauses(rec) ==
  LET a == rec.a  b == rec.b
      ca == ClsMap(a)  cb == ClsMap(b)
      objs(g, cm, c) == {g.oid[k] : k \in {j \in Nodes(g) : cm[j] = c}}
      classes == {cb[k] : k \in Nodes(b)}
      origA == {a.oid[k] : k \in {j \in Nodes(a) : a.orig[j]}}
      allB == {b.oid[k] : k \in Nodes(b)}
      newA == {a.oid[k] : k \in {j \in Nodes(a) : ~a.orig[j]}}
      newB == {b.oid[k] : k \in {j \in Nodes(b) : ~b.orig[j]}}
  IN
  \* the rewriter's result IS the substitution, structurally
  (IF ca[a.root] = cb[b.root] THEN {} ELSE {"result_differs_from_substitution"})
  \* one result object per (shared) node: no structural class has more
  \* distinct objects in the result than in the substitution
  \cup {"SharedMapsToOne:equal_nodes_in_several_objects:" \o b.kind[k] :
          k \in {j \in Nodes(b) :
                   Cardinality(objs(b, cb, cb[j])) > Cardinality(objs(a, ca, cb[j]))}}
  \* untouched sub-graphs come back as the identical objects
  \cup (IF origA \subseteq allB THEN {} ELSE {"IdentityWhenUnchanged:untouched_node_rebuilt"})
  \* never more new nodes than the substitution needs
  \cup (IF Cardinality(newB) <= Cardinality(newA) THEN {}
        ELSE {"NoMoreNodesThanGiven:more_new_objects_than_path_nodes"})

Verdict == LET c == Clauses(Batch[r]) IN
           PrintT(<<"V", Batch[r].id, IF c = {} THEN "ok" ELSE "failed", c>>)
=============================================================================
