SPECIFICATION LiveSpec
PROPERTY Termination
CHECK_DEADLOCK FALSE
