INIT Init
NEXT Next
INVARIANT Verdict
CHECK_DEADLOCK FALSE
