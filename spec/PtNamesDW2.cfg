CONSTANTS
  Pool = {"x", "out", "u", "v", "_pt_data"}
  Reserved = {"_pt_data"}
  InName = "x"
  OutKey = "out"
INIT Init
NEXT Next
CONSTRAINT Constraint
CHECK_DEADLOCK FALSE
