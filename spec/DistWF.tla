------------------------------- MODULE DistWF -------------------------------
(***************************************************************************)
(* DistComm!WellFormedInput evaluated by TLC on communication skeletons    *)
(* extracted from REAL per-rank pytato DAGs (reflective walk in            *)
(* ptverif/distharness.py: comm_skeleton): the expected verdict for C10,   *)
(* one source of truth with the generator.  Each record                    *)
(*   [id, n, sends: [[rank, dst, sym, deps]], recvs: [[rank, src, sym]]]   *)
(* becomes the state of DistComm; the verdict line is                      *)
(*   <<"V", id, "wf" | "mal", Why, Affected, [rank -> ExpectRaise]>>.      *)
(***************************************************************************)
EXTENDS DistComm, IOUtils

Batch == JsonDeserialize(IOEnv.BATCH_FILE)

WFInit ==
  \E k \in 1..Len(Batch) :
    LET b == Batch[k] IN
    /\ n = b.n
    /\ sends = [i \in DOMAIN b.sends |->
                  [src |-> b.sends[i].rank, dst |-> b.sends[i].dst, tag |-> b.sends[i].sym,
                   deps |-> {j + 1 : j \in {b.sends[i].deps[x] : x \in DOMAIN b.sends[i].deps}},
                   kind |-> "comp", share |-> 0, on |-> TRUE, inside |-> 0, par |-> FALSE]]
    /\ recvs = [j \in DOMAIN b.recvs |->
                  [dst |-> b.recvs[j].rank, src |-> b.recvs[j].src, tag |-> b.recvs[j].sym,
                   \* every extracted end is a distinct node of its DAG
                   use |-> "out", v |-> j, on |-> TRUE]]
    /\ stored = <<>> /\ staple = <<>> /\ eo = <<>> /\ faults = <<>>
    /\ phase = "check" /\ cur = k
WFNext == UNCHANGED vars

WFVerdict == PrintT(<<"V", Batch[cur].id, IF WellFormedInput THEN "wf" ELSE "mal",
                      ToJson([why |-> Why, affected |-> Affected,
                              expect |-> [r \in 1..n |-> ExpectRaise(r - 1)]])>>)
=============================================================================
