----------------------------- MODULE PtDistLaw -----------------------------
(***************************************************************************)
(* C06, design level: which operations may be pushed through an einsum.    *)
(* Instance: the einsum is a matrix-vector product M(A, x) over GF(Q) with *)
(* A 1x2 (each output row of an einsum is independent) and x, y vectors of length 2, c a scalar.  Every state is one     *)
(* choice of (A, x, y, c); the invariants are the SOUND rules (must hold   *)
(* in every state), the ASSUMEs assert that each neighbouring rule has a   *)
(* counterexample, i.e. may never be applied.                              *)
(* Division follows the convention used by PtSem: x / 0 = 0.               *)
(***************************************************************************)
EXTENDS Integers, TLC

CONSTANT Q      \* a prime > 3: 5 (quick) or 7 (thorough); in GF(3) c/x = c*x is linear
F == 0..(Q - 1)
Vec == [1..2 -> F]
Mat == [1..1 -> [1..2 -> F]]

RECURSIVE PowQ(_, _)
PowQ(b, e) == IF e = 0 THEN 1 ELSE (b * PowQ(b, e - 1)) % Q
Inv(a) == IF a = 0 THEN 0 ELSE PowQ(a, Q - 2)
Div(a, b) == (a * Inv(b)) % Q
Fn(a) == (a * a * a + 2 * a * a + 1) % Q       \* some non-linear function

M(A, x) == [i \in 1..1 |-> (A[i][1] * x[1] + A[i][2] * x[2]) % Q]
VAdd(x, y) == [i \in DOMAIN x |-> (x[i] + y[i]) % Q]
VSub(x, y) == [i \in DOMAIN x |-> (x[i] + Q - y[i]) % Q]
VScale(c, x) == [i \in DOMAIN x |-> (c * x[i]) % Q]
VDivC(x, c) == [i \in DOMAIN x |-> Div(x[i], c)]
VCDiv(c, x) == [i \in DOMAIN x |-> Div(c, x[i])]
VSq(x) == [i \in DOMAIN x |-> (x[i] * x[i]) % Q]
VFn(x) == [i \in DOMAIN x |-> Fn(x[i])]
VMul(x, y) == [i \in DOMAIN x |-> (x[i] * y[i]) % Q]
VAddS(x, s) == [i \in DOMAIN x |-> (x[i] + s) % Q]

VARIABLES A, x, y, c
vars == <<A, x, y, c>>
Init == A \in Mat /\ x \in Vec /\ y \in Vec /\ c \in F
Next == UNCHANGED vars

\* the rule of _can_hlo_be_distributed as the property states it
SoundAdd   == M(A, VAdd(x, y)) = VAdd(M(A, x), M(A, y))
SoundSub   == M(A, VSub(x, y)) = VSub(M(A, x), M(A, y))
SoundScale == M(A, VScale(c, x)) = VScale(c, M(A, x))
SoundDivC  == M(A, VDivC(x, c)) = VDivC(M(A, x), c)

\* each neighbour has a counterexample: it is NOT an identity
ASSUME \E a \in Mat, v \in Vec, s \in F : M(a, VCDiv(s, v)) # VCDiv(s, M(a, v))
ASSUME \E a \in Mat, v \in Vec : M(a, VSq(v)) # VSq(M(a, v))
ASSUME \E a \in Mat, v \in Vec : M(a, VFn(v)) # VFn(M(a, v))
ASSUME \E a \in Mat, v \in Vec, w \in Vec : M(a, VMul(v, w)) # VMul(M(a, v), M(a, w))
ASSUME \E a \in Mat, v \in Vec, s \in F : M(a, VAddS(v, s)) # VAddS(M(a, v), s)
=============================================================================
