CONSTANTS
  N = 3
  WithFn = TRUE
  TwoParts = TRUE
  Bug = "any"
INIT Init
NEXT Next
INVARIANTS AtEnd Progress
CHECK_DEADLOCK FALSE
