----------------------------- MODULE PtNamesDW2 ------------------------------
(***************************************************************************)
(* C15, generator family "two wrappers": TWO DataWrapper nodes in one      *)
(* graph, each unnamed / Named(n) / PrefixNamed(n), wrapping either two    *)
(* different data objects or ONE AND THE SAME object (one buffer in two    *)
(* roles).  A DataWrapper is an entity of its own (pytato compares         *)
(* wrappers by node identity), whatever it wraps: each gets its own        *)
(* argument, a Named tag on either is honoured exactly or diagnosed, and   *)
(* both arguments are pre-bound.                                           *)
(*   reject  Named(n) with n the input's name or the output key; both      *)
(*           wrappers Named with one name (two entities, one user name)    *)
(*   either  some wrapper is Named (a Named tag yields that name OR an     *)
(*           error, e.g. when a PrefixNamed sibling was given the bare     *)
(*           prefix first); a user name in the reserved region             *)
(*   accept  otherwise                                                     *)
(***************************************************************************)
EXTENDS Integers, Sequences, TLC, Json

CONSTANTS Pool, Reserved, InName, OutKey
VARIABLES kind, dwName, sameObj, emitted
vars == <<kind, dwName, sameObj, emitted>>

Kinds == {"none", "named", "prefix"}
Init == /\ kind \in [1..2 -> Kinds]
        /\ dwName \in [1..2 -> Pool]
        /\ sameObj \in BOOLEAN
        /\ emitted = FALSE

MustReject == \/ \E w \in 1..2 : kind[w] = "named" /\ dwName[w] \in {InName, OutKey}
              \/ kind[1] = "named" /\ kind[2] = "named" /\ dwName[1] = dwName[2]
MayReject == \/ \E w \in 1..2 : kind[w] = "named"
             \/ \E w \in 1..2 : kind[w] = "prefix" /\ dwName[w] \in Reserved

Emit == /\ ~emitted /\ emitted' = TRUE
        /\ PrintT(<<"NAMING", ToJson([ins |-> <<InName>>, outs |-> <<OutKey>>,
                                      kinds |-> kind, dws |-> dwName, same |-> sameObj,
                                      expect |-> IF MustReject THEN "reject"
                                                 ELSE IF MayReject THEN "either"
                                                 ELSE "accept"])>>)
        /\ UNCHANGED <<kind, dwName, sameObj>>
Next == Emit
\* an unnamed wrapper has no name to vary
Constraint == \A w \in 1..2 : kind[w] = "none" => dwName[w] = CHOOSE n \in Pool : TRUE
=============================================================================
