CONSTANTS
  NF = 3
  Share = FALSE
SPECIFICATION Spec
INVARIANT TypeOK
INVARIANT OncePerDefinition
CHECK_DEADLOCK FALSE
