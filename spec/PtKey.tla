-------------------------------- MODULE PtKey --------------------------------
(***************************************************************************)
(* C18: the persistent key identifies a computation faithfully.            *)
(*                                                                         *)
(*   KeyOK     == \A a, b \in Observed : Canon(a) = Canon(b) <=> key[a]=key[b] *)
(*   KeyStable == the key of a is the same in every process and before and *)
(*                after pickling                                           *)
(*                                                                         *)
(* Canon is the canonical structural form computed BY TLC from the         *)
(* reflective export of the real objects (PtEq!Classes): every dataclass   *)
(* field of every node, wrapped data by the digest of its bytes together   *)
(* with its dtype and shape.  "Equal" is therefore the specification's     *)
(* notion, not pytato's ==.  Two canonical forms are used because the      *)
(* property leaves non_equality_tags open (creation tracebacks are off):   *)
(*   canon  ignores non_equality_tags:  Canon differs  => keys differ      *)
(*   strict includes them:              Strict equal   => keys equal       *)
(* A pair that differs only in non_equality_tags is not constrained.       *)
(*                                                                         *)
(* Validation module (use E); one record = one family of objects:          *)
(*   nodes, roots, names, canonM / strictM = the generator's prediction    *)
(*   (third voice: disagreement with Classes is a machinery failure),      *)
(*   obs[p] = [key, pkey] per process: the key of every member, and of     *)
(*   every member after a pickle round trip in that process.  The member   *)
(*   "xpick" was pickled by ANOTHER process (different hash seed).         *)
(* Verdict lines as in PtEqCheck.                                          *)
(***************************************************************************)
EXTENDS PtEq, Json, IOUtils

Batch == JsonDeserialize(IOEnv.BATCH_FILE)

VARIABLE r
Init == r \in 1..Len(Batch)
Next == UNCHANGED r

\* ---- the clauses, over one process's keys
KeyCollision(key, CE, I) ==     \* Canon differs but the key does not
  {<<"KeyCollision", i, j>> : <<i, j>> \in
      {p \in I \X I : p[1] < p[2] /\ ~CE[p[1]][p[2]] /\ key[p[1]] = key[p[2]]}}
KeySplit(key, SE, I) ==         \* structurally identical but different keys
  {<<"KeySplit", i, j>> : <<i, j>> \in
      {p \in I \X I : p[1] < p[2] /\ SE[p[1]][p[2]] /\ key[p[1]] # key[p[2]]}}
Keyable(key, I) == {<<"Keyable", i, i>> : i \in {q \in I : key[q] = "error"}}
KeyStablePickle(key, pkey, I) ==
  {<<"KeyStablePickle", i, i>> : i \in {q \in I : pkey[q] # key[q]}}

KeyOK(key, CE, SE, I) == KeyCollision(key, CE, I) \cup KeySplit(key, SE, I)

\* ---- across processes
KeyStableProcs(obs, I) ==
  {<<1, "KeyStableProcs", i, i>> : i \in
      {q \in I : \E p1, p2 \in DOMAIN obs : obs[p1].key[q] # obs[p2].key[q]}}

FamilyVerdict(rec) ==
  LET bad == BadNodes(rec.nodes) IN
  IF bad # {} THEN
     PrintT(<<"V", rec.id, "machinery:fields",
              ToJson([q \in 1..Cardinality(bad) |-> rec.nodes[SetToSeq(bad)[q]].kind])>>)
  ELSE
  LET cc == TLCEval(Classes(rec.nodes, "canon"))
      cs == TLCEval(Classes(rec.nodes, "strict"))
      I  == DOMAIN rec.roots
      CE == TLCEval([i \in I |-> [j \in I |-> cc[rec.roots[i]] = cc[rec.roots[j]]]])
      SE == TLCEval([i \in I |-> [j \in I |-> cs[rec.roots[i]] = cs[rec.roots[j]]]])
      \* "known": the pairs for which the generator makes a prediction at all
      Known(i, j) == IF "known" \in DOMAIN rec THEN rec.known[i][j] ELSE TRUE
      mism == {p \in I \X I : /\ Known(p[1], p[2])
                              /\ \/ CE[p[1]][p[2]] # rec.canonM[p[1]][p[2]]
                                 \/ SE[p[1]][p[2]] # rec.strictM[p[1]][p[2]]}
  IN
  IF mism # {} THEN
     PrintT(<<"V", rec.id, "machinery:spec_mismatch",
              ToJson([q \in 1..Cardinality(mism) |-> SetToSeq(mism)[q]])>>)
  ELSE
  LET fails ==
        UNION {{<<p>> \o f : f \in KeyOK(rec.obs[p].key, CE, SE, I)
                                   \cup Keyable(rec.obs[p].key, I)
                                   \cup KeyStablePickle(rec.obs[p].key, rec.obs[p].pkey, I)}
               : p \in DOMAIN rec.obs}
        \cup KeyStableProcs(rec.obs, I)
  IN IF fails = {} THEN PrintT(<<"V", rec.id, "ok">>)
     ELSE PrintT(<<"V", rec.id, "fail",
                   ToJson([q \in 1..Cardinality(fails) |-> SetToSeq(fails)[q]])>>)

Verdict == FamilyVerdict(Batch[r])
=============================================================================
