------------------------------ MODULE PtNamesDW ------------------------------
(***************************************************************************)
(* C15, second generator family: how WRAPPED DATA is named.                *)
(* Template: one named input, one output key, nDW in 1..2 data wrappers;   *)
(* the first wrapper is unnamed, carries Named(n) or carries PrefixNamed(n)*)
(* with n from the pool (which contains the reserved names pytato itself   *)
(* would generate).  Expected verdict:                                     *)
(*   reject  Named(n) with n already the input's name or the output key    *)
(*           ("a Named tag yields exactly that name or an error": the name *)
(*           is taken, so it must be the error), or input name = out key   *)
(*   either  Named(n) otherwise; a user name inside the reserved region    *)
(*   accept  otherwise                                                     *)
(***************************************************************************)
EXTENDS Integers, Sequences, TLC, Json

CONSTANTS Pool, Reserved     \* Reserved \subseteq Pool: names in the _pt_ region
VARIABLES inName, outKey, kind, dwName, nDW, emitted
vars == <<inName, outKey, kind, dwName, nDW, emitted>>

Init == /\ inName \in Pool /\ outKey \in Pool
        /\ kind \in {"none", "named", "prefix"}
        /\ dwName \in Pool
        /\ nDW \in 1..2
        /\ emitted = FALSE

MustReject == \/ inName = outKey
              \/ kind = "named" /\ dwName \in {inName, outKey}
MayReject == \/ kind = "named"
             \/ inName \in Reserved \/ outKey \in Reserved
             \/ kind = "prefix" /\ dwName \in Reserved

Emit == /\ ~emitted /\ emitted' = TRUE
        /\ PrintT(<<"NAMING", ToJson([ins |-> <<inName>>, outs |-> <<outKey>>,
                                      kind |-> kind, dw |-> dwName, ndw |-> nDW,
                                      expect |-> IF MustReject THEN "reject"
                                                 ELSE IF MayReject THEN "either"
                                                 ELSE "accept"])>>)
        /\ UNCHANGED <<inName, outKey, kind, dwName, nDW>>
Next == Emit
\* an unnamed wrapper has no name to vary
Constraint == kind = "none" => dwName = CHOOSE n \in Pool : TRUE
=============================================================================
