INIT Init
NEXT Next
INVARIANT InvNoReadBeforeWrite
INVARIANT InvNoLostWrite
INVARIANT InvNoDangling
INVARIANT InvOutputsWritten
INVARIANT InvReadsHaveWriters
CHECK_DEADLOCK FALSE
