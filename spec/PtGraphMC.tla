------------------------------ MODULE PtGraphMC ------------------------------
(***************************************************************************)
(* Model checking of the DEFINITIONS of PtGraph: over every DAG shape      *)
(* (canonical numbering, as in PtMapper), every congruence marking         *)
(* structural duplicates and every typing (input / received / computed /   *)
(* send-holder nodes, stored tags, array or dictionary root) the           *)
(* relations are converse to each other with multiplicity, the counts add  *)
(* up, the numbering is a topological order and the materialised sets are  *)
(* nested.  One state per instance.                                        *)
(***************************************************************************)
EXTENDS PtGraph

CONSTANTS MaxN, MaxAr

VARIABLE g

SeqsUpTo(S, k) == UNION {[1..j -> S] : j \in 0..k}
RECURSIVE Dags(_)
Dags(n) == IF n = 0 THEN {<<>>}
           ELSE {Append(d, s) : d \in Dags(n - 1), s \in SeqsUpTo(1..(n - 1), MaxAr)}
InSeq(x, s) == \E i \in 1..Len(s) : s[i] = x
RECURSIVE Visit(_, _, _), VisitKids(_, _, _, _)
VisitKids(ch, n, i, acc) == IF i > Len(ch[n]) THEN acc
                            ELSE VisitKids(ch, n, i + 1, Visit(ch, ch[n][i], acc))
Visit(ch, n, acc) == IF InSeq(n, acc) THEN acc ELSE Append(VisitKids(ch, n, 1, acc), n)
Canon(ch) == Visit(ch, Len(ch), <<>>) = [i \in 1..Len(ch) |-> i]
RECURSIVE Reps(_, _)
Reps(ch, n) ==
  IF n = 0 THEN {<<>>}
  ELSE UNION { {Append(r, m) : m \in {n} \cup
                  {m \in 1..(n - 1) : /\ r[m] = m
                                      /\ Len(ch[m]) = Len(ch[n])
                                      /\ \A i \in 1..Len(ch[n]) : r[ch[m][i]] = r[ch[n][i]]}}
               : r \in Reps(ch, n - 1) }

\* typing: a function of the class (equal nodes have equal kinds and tags)
KindsFor(ch, n) == IF Len(ch[n]) = 0 THEN {"Placeholder", "DistributedRecv", "SizeParam"}
                   ELSE IF Len(ch[n]) = 2 THEN {"IndexLambda", "DistributedSendRefHolder"}
                   ELSE {"IndexLambda", "Stack"}
EkFor(kd, k) == IF kd = "DistributedSendRefHolder" THEN <<"send", "operand">>
                ELSE [i \in 1..k |-> IF kd = "IndexLambda" /\ i = k /\ k > 1 THEN "shape"
                                     ELSE "operand"]

Init ==
  \E n \in 1..MaxN : \E ch \in {c \in Dags(n) : Canon(c)} : \E rep \in Reps(ch, n) :
  \E kind \in {k \in [1..n -> {"Placeholder", "DistributedRecv", "SizeParam", "IndexLambda",
                               "Stack", "DistributedSendRefHolder"}] :
                 \A i \in 1..n : k[i] \in KindsFor(ch, i) /\ k[i] = k[rep[i]]} :
  \E stored \in {s \in [1..n -> BOOLEAN] : \A i \in 1..n : s[i] = s[rep[i]]} :
  \E dict \in BOOLEAN :
    g = IF dict
        THEN [n |-> n + 1, ch |-> Append(ch, <<n, 1>>),
              ek |-> Append([i \in 1..n |-> EkFor(kind[i], Len(ch[i]))], <<"entry", "entry">>),
              ns |-> [i \in 1..(n + 1) |-> 0], cls |-> Append(rep, n + 1),
              kind |-> Append(kind, "DictOfNamedArrays"),
              isarr |-> Append([i \in 1..n |-> TRUE], FALSE),
              stored |-> Append(stored, FALSE), dshape |-> [i \in 1..(n + 1) |-> <<>>],
              roots |-> <<n + 1>>, outs |-> <<n, 1>>]
        ELSE [n |-> n, ch |-> ch, ek |-> [i \in 1..n |-> EkFor(kind[i], Len(ch[i]))],
              ns |-> [i \in 1..n |-> 0], cls |-> rep, kind |-> kind,
              isarr |-> [i \in 1..n |-> TRUE], stored |-> stored,
              dshape |-> [i \in 1..n |-> <<>>], roots |-> <<n>>, outs |-> <<n>>]

Next == UNCHANGED g

Converse == ConverseOK(g) /\ SetsOK(g)
Edges == EdgesAddUp(g)
Counts == CountsAddUp(g, Live(g))
Topo == PostOrderIsTopo(g)
Mat == MatOK(g, Live(g))
\* the send convention: a holder's payload is a predecessor, and dropping
\* send edges only removes users
SendConvention ==
  \A u, v \in Nodes(g) : MultNoSend(g, v, u) <= Mult(g, v, u)
=============================================================================
