CONSTANTS
  NF = 4
  Share = TRUE
SPECIFICATION Spec
INVARIANT TypeOK
INVARIANT OncePerDefinition
INVARIANT AllReached
INVARIANT Linear
CHECK_DEADLOCK FALSE
