CONSTANTS
  Pool = {"x"}
  NIn = 1
  NOut = 1
  OutIsIn <- T0
INIT CheckInit
NEXT CheckNext
INVARIANT Verdict
CHECK_DEADLOCK FALSE
