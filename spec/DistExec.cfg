INIT Init
NEXT Next
INVARIANT Report
INVARIANT Dump
CHECK_DEADLOCK FALSE
