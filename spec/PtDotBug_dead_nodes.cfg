CONSTANTS
  N = 3
  WithFn = TRUE
  TwoParts = TRUE
  Bug = "dead_nodes"
INIT Init
NEXT Next
INVARIANTS RefFaithful
CHECK_DEADLOCK FALSE
