CONSTANTS NP = 3
  CMin <- Neg3
  CMax = 3
INIT CheckInit
NEXT Next
INVARIANT Verdict
CHECK_DEADLOCK FALSE
