CONSTANTS
  N = 3
  T = 2
  WithMay = TRUE
  WithRedn = TRUE
INIT Init
NEXT Next
INVARIANTS AllInvariants IsLeast MovesFromHere
CHECK_DEADLOCK FALSE
