------------------------------- MODULE PtDotMC -------------------------------
(***************************************************************************)
(* Model checking (use M) of X02's relation on ALL small sources.          *)
(*                                                                         *)
(* A source: N main nodes, each a user placeholder "x", the placeholder    *)
(* "o" that names a part output, an operation over one or two EARLIER      *)
(* nodes (the same node twice is allowed: x + x), or (WithFn) a call of    *)
(* the one function f (body: parameter p, one operation, return value r).  *)
(* Nodes are hash-consed (no two equal nodes), dead nodes (reachable from  *)
(* no output) are allowed.  TwoParts: part P1 computes output "o" = node   *)
(* c, part P2 computes "out" = node N and may read "o" through its         *)
(* placeholder AND contain its own instance of c or of anything below it;  *)
(* otherwise: one trivial part with the outputs "out" and "o".             *)
(*                                                                         *)
(* The REFERENCE RENDERER is a state machine shaped like the code's        *)
(* mapper: a depth-first walk per (part, output) with a cache per part;    *)
(* one action per edge followed (cache hit or descent) and one per node    *)
(* completed (emit the node, emit the edges from its children, remember    *)
(* its id).  Every order of the outputs and every order of the children    *)
(* of a node is a behaviour.  Placeholders of the main graph are emitted   *)
(* once for all parts; a function is emitted once per part, when its first *)
(* call is completed; name nodes and the cross-part edge come at the end.  *)
(*                                                                         *)
(* Invariants at the end of every behaviour (Bug = "none"):                *)
(*   RefFaithful   the rendering is faithful to Picture(src)               *)
(*                 (AtEnd states the three together, computing the picture *)
(*                 and the rendering once)                                 *)
(*   Agree         FaithfulByClasses <=> FaithfulExplicit (the decision    *)
(*                 procedure used on real records IS the relation)         *)
(*   ClauseExact   ClauseFor(..) = "ok" <=> faithful (no level of the      *)
(*                 diagnosis rejects what the relation accepts)            *)
(* Negative controls (PtDotBug*.cfg, TLC must REFUTE RefFaithful): the     *)
(* classic renderer bugs, each one switch in the same machine.  Agree and  *)
(* ClauseExact are checked on the buggy renderings as well (PtDotAny.cfg:  *)
(* every bug at once, nondeterministically) -- the decision procedure is   *)
(* validated on unfaithful renderings too.                                 *)
(***************************************************************************)
EXTENDS PtDot

CONSTANTS N, WithFn, TwoParts, Bug

Bugs == {"per_path",          \* no cache: a node is emitted once per path
         "drop_shared_edge",  \* cache hit: the edge to the shared child is forgotten
         "dup_edge_on_hit",   \* cache hit: the edge is emitted twice
         "func_per_call",     \* the function's cluster is emitted per call site
         "wrong_part",        \* cross-part edge starts at the consuming part's instance
         "ph_per_part",       \* placeholders are emitted once per part
         "dead_nodes"}        \* every node of the source is emitted, reachable or not
Active(b) == Bug = b \/ Bug = "any"

(***************************************************************************)
(* the space of sources                                                    *)
(***************************************************************************)
Desc(i) == {[k |-> "phx", kids |-> <<>>]}
           \cup (IF TwoParts THEN {[k |-> "pho", kids |-> <<>>]} ELSE {})
           \cup {[k |-> "op", kids |-> <<a>>] : a \in 1..(i - 1)}
           \cup {[k |-> "op", kids |-> <<a, b>>] : a \in 1..(i - 1), b \in 1..(i - 1)}
           \cup (IF WithFn THEN {[k |-> "call", kids |-> <<a>>] : a \in 1..(i - 1)} ELSE {})
RECURSIVE Shapes(_)
Shapes(i) == IF i = 0 THEN {<<>>}
             ELSE {Append(s, d) : s \in Shapes(i - 1), d \in Desc(i)}
Canonical(s) == \A i, j \in DOMAIN s : i < j => s[i] # s[j]

Fld(name) == [u \in {"_", "name"} |-> IF u = "_" THEN "" ELSE name]
EdgeLab == <<"a", "b">>
MainNode(d) ==
  [ns |-> 0,
   kind |-> IF d.k \in {"phx", "pho"} THEN "ph" ELSE d.k,
   title |-> CASE d.k \in {"phx", "pho"} -> "Placeholder" [] d.k = "op" -> "op" [] OTHER -> "Call",
   must |-> CASE d.k = "phx" -> Fld("x") [] d.k = "pho" -> Fld("o") [] OTHER -> NoFields,
   may |-> NoFields,
   name |-> CASE d.k = "phx" -> "x" [] d.k = "pho" -> "o" [] OTHER -> "",
   fn |-> IF d.k = "call" THEN 1 ELSE 0,
   kids |-> [q \in DOMAIN d.kids |->
               [to |-> d.kids[q], lab |-> IF d.k = "call" THEN "p" ELSE EdgeLab[q],
                ek |-> "operand"]]]
BodyNodes ==
  <<[ns |-> 1, kind |-> "ph", title |-> "Placeholder", must |-> Fld("p"), may |-> NoFields,
     name |-> "p", fn |-> 0, kids |-> <<>>],
    [ns |-> 1, kind |-> "op", title |-> "op", must |-> NoFields, may |-> NoFields,
     name |-> "", fn |-> 0, kids |-> <<[to |-> N + 1, lab |-> "a", ek |-> "operand"]>>]>>

Source(s, c) ==
  [nodes |-> [i \in 1..N |-> MainNode(s[i])] \o (IF WithFn THEN BodyNodes ELSE <<>>),
   funcs |-> IF WithFn THEN <<[label |-> "f", rets |-> <<[name |-> "r", node |-> N + 2]>>]>>
             ELSE <<>>,
   parts |-> IF TwoParts
             THEN <<[label |-> "P1", trivial |-> FALSE, outs |-> <<"o">>, user |-> <<"x">>, recvs |-> <<>>,
                     sends |-> <<>>],
                    [label |-> "P2", trivial |-> FALSE, outs |-> <<"out">>, user |-> <<"x">>, recvs |-> <<>>,
                     sends |-> <<>>]>>
             ELSE <<[label |-> "None", trivial |-> TRUE, outs |-> <<"out", "o">>,
                     user |-> <<"x">>, recvs |-> <<>>, sends |-> <<>>]>>,
   outputs |-> <<[name |-> "out", node |-> N], [name |-> "o", node |-> c]>>,
   overall |-> IF TwoParts THEN <<"out">> ELSE <<"out", "o">>]

\* the producer of "o" comes before the placeholder that names it
CutOK(s, c) == \A i \in DOMAIN s : s[i].k = "pho" => c < i

SourcesOK == UNION {{<<s, c>> : c \in {d \in 1..N : CutOK(s, d)}} :
                       s \in {t \in Shapes(N) : Canonical(t)}}

(***************************************************************************)
(* the renderer                                                            *)
(***************************************************************************)
VARIABLES src,      \* the source (constant along a behaviour)
          todo,     \* set of <<part, output name>> not yet walked
          stack,    \* frames [p, n, rem (kid indices to follow), got (kid index -> ids)]
          tab,      \* per part: main node -> id            (the cache / array_to_id)
          phid,     \* main placeholder node -> id           (shared by the parts)
          fdone,    \* per part: function -> [entry, ret]    ids once emitted
          outid,    \* <<part, name>> -> id of the output's node
          rn,       \* id -> [cl, title, fields, plain]      rendered nodes
          re,       \* sequence of [src, dst, lab, style]    rendered edges
          done
vars == <<src, todo, stack, tab, phid, fdone, outid, rn, re, done>>

NPart == Len(src.parts)
PCl(p) == IF src.parts[p].trivial THEN <<>> ELSE <<src.parts[p].label>>
NextId == Cardinality(DOMAIN rn) + 1
MainPh(n) == IsMainPh(src, n)
Cached(p, n) ==
  IF Active("per_path") /\ Bug # "any" THEN FALSE
  ELSE IF MainPh(n) /\ ~Active("ph_per_part") THEN n \in DOMAIN phid
  ELSE n \in DOMAIN tab[p]
CachedId(p, n) == IF MainPh(n) /\ ~Active("ph_per_part") THEN phid[n] ELSE tab[p][n]

Init ==
  /\ \E x \in SourcesOK : src = Source(x[1], x[2])
  /\ todo = UNION {{<<p, src.parts[p].outs[i]>> : i \in DOMAIN src.parts[p].outs} :
                      p \in 1..Len(src.parts)}
  /\ stack = <<>>
  /\ tab = [p \in 1..Len(src.parts) |-> <<>>]
  /\ phid = <<>>
  /\ fdone = [p \in 1..Len(src.parts) |-> <<>>]
  /\ outid = <<>>
  /\ rn = <<>>
  /\ re = <<>>
  /\ done = FALSE

Frame(p, n, out) == [p |-> p, n |-> n, rem |-> DOMAIN src.nodes[n].kids,
                     got |-> [q \in {} |-> <<>>], out |-> out]

\* begin the walk of one output of one part
StartOut ==
  /\ stack = <<>> /\ ~done
  /\ \E po \in todo :
       LET p == po[1]  n == OutNode(src, po[2]) IN
       /\ todo' = todo \ {po}
       /\ IF Cached(p, n)
          THEN /\ outid' = (po :> CachedId(p, n)) @@ outid
               /\ UNCHANGED stack
          ELSE /\ stack' = <<Frame(p, n, po)>>
               /\ UNCHANGED outid
  /\ UNCHANGED <<src, tab, phid, fdone, rn, re, done>>

\* follow one edge of the node on top of the stack
Follow ==
  /\ stack # <<>>
  /\ LET top == stack[Len(stack)] IN
     /\ top.rem # {}
     /\ \E q \in top.rem :
          LET c == src.nodes[top.n].kids[q].to IN
          IF Cached(top.p, c)
          THEN \* cache hit: the edge goes to the id remembered
               \E ids \in (IF Active("drop_shared_edge") /\ Bug # "any" THEN {<<>>}
                           ELSE IF Active("dup_edge_on_hit") /\ Bug # "any"
                                THEN {<<CachedId(top.p, c), CachedId(top.p, c)>>}
                           ELSE {<<CachedId(top.p, c)>>}
                                \cup (IF Bug = "any" THEN {<<>>, <<CachedId(top.p, c),
                                                                    CachedId(top.p, c)>>}
                                      ELSE {})) :
                 stack' = [stack EXCEPT ![Len(stack)] =
                             [top EXCEPT !.rem = @ \ {q}, !.got = (q :> ids) @@ @]]
          ELSE stack' = Append([stack EXCEPT ![Len(stack)] = [top EXCEPT !.rem = @ \ {q}]],
                               [Frame(top.p, c, <<0, q>>) EXCEPT !.out = <<0, q>>])
  /\ UNCHANGED <<src, todo, tab, phid, fdone, outid, rn, re, done>>

\* everything the function's cluster consists of, with fresh ids from id0 on
FuncNodes(p, id0) ==
  LET fcl == PCl(p) \o <<"f">> IN
  (id0 :> [cl |-> fcl, title |-> "f", fields |-> NoFields, plain |-> TRUE])
  @@ ((id0 + 1) :> [cl |-> fcl \o <<"Arguments">>, title |-> "Placeholder", fields |-> Fld("p"),
                    plain |-> FALSE])
  @@ ((id0 + 2) :> [cl |-> fcl, title |-> "op", fields |-> NoFields, plain |-> FALSE])
  @@ ((id0 + 3) :> [cl |-> fcl \o <<"Returns">>, title |-> "r", fields |-> NoFields,
                    plain |-> TRUE])
FuncEdges(id0) == <<[src |-> id0 + 1, dst |-> id0 + 2, lab |-> "a", style |-> ""],
                    [src |-> id0 + 2, dst |-> id0 + 3, lab |-> "", style |-> ""]>>

\* the node on top of the stack is complete: emit it
Complete ==
  /\ stack # <<>>
  /\ LET top == stack[Len(stack)]
         nd == src.nodes[top.n]
         id == NextId
         isCall == nd.kind = "call"
         perCall == IF Bug = "any" THEN {TRUE, FALSE} ELSE {Active("func_per_call")}
     IN
     /\ top.rem = {}
     /\ \E again \in perCall :
        LET newFn == isCall /\ (1 \notin DOMAIN fdone[top.p] \/ again)
            entry == IF ~isCall THEN 0
                     ELSE IF newFn THEN id + 1 ELSE fdone[top.p][1]
            cl == IF MainPh(top.n) THEN <<>> ELSE PCl(top.p)
            kidEdges == Flat([q \in DOMAIN nd.kids |->
                           [j \in DOMAIN top.got[q] |->
                              [src |-> top.got[q][j], dst |-> id, lab |-> nd.kids[q].lab,
                               style |-> ""]]], Len(nd.kids))
        IN
        /\ rn' = (id :> [cl |-> cl, title |-> nd.title, fields |-> nd.must, plain |-> FALSE])
                 @@ (IF newFn THEN FuncNodes(top.p, id + 1) ELSE <<>>) @@ rn
        /\ re' = re \o kidEdges
                 \o (IF newFn THEN FuncEdges(id + 1) ELSE <<>>)
                 \o (IF isCall THEN <<[src |-> entry, dst |-> id, lab |-> "", style |-> ""]>>
                     ELSE <<>>)
        /\ fdone' = IF newFn THEN [fdone EXCEPT ![top.p] = (1 :> (id + 1))] ELSE fdone
        /\ IF MainPh(top.n) /\ ~Active("ph_per_part")
           THEN phid' = (top.n :> id) @@ phid /\ UNCHANGED tab
           ELSE tab' = [tab EXCEPT ![top.p] = (top.n :> id) @@ @] /\ UNCHANGED phid
        /\ IF Len(stack) = 1
           THEN /\ outid' = (top.out :> id) @@ outid
                /\ stack' = <<>>
           ELSE /\ UNCHANGED outid
                /\ stack' = [SubSeq(stack, 1, Len(stack) - 1) EXCEPT ![Len(stack) - 1] =
                               [@ EXCEPT !.got = (top.out[2] :> <<id>>) @@ @]]
  /\ UNCHANGED <<src, todo, done>>

\* the end: dead nodes (bug), name nodes, the cross-part edge
Finish ==
  /\ stack = <<>> /\ todo = {} /\ ~done
  /\ LET id0 == NextId
         dead == IF Active("dead_nodes") /\ Bug # "any"
                 THEN {n \in 1..N : ~MainPh(n) /\ \A p \in 1..NPart : n \notin DOMAIN tab[p]}
                 ELSE {}
         deadSeq == Asc(dead)
         deadNodes == [j \in DOMAIN deadSeq |->
                         [cl |-> PCl(1), title |-> src.nodes[deadSeq[j]].title,
                          fields |-> src.nodes[deadSeq[j]].must, plain |-> FALSE]]
         \* name nodes: one per (part, output), one per overall output
         pouts == Flat([p \in 1..NPart |->
                    [i \in DOMAIN src.parts[p].outs |-> <<p, src.parts[p].outs[i]>>]], NPart)
         np == Len(pouts)
         no == Len(src.overall)
         nd0 == Len(deadSeq)
         \* overall outputs: the instance in the LAST part that has the node
         lastPart(nm) == LET hs == {p \in 1..NPart : OutNode(src, nm) \in DOMAIN tab[p]}
                         IN IF hs = {} THEN 1 ELSE CHOOSE p \in hs : \A q \in hs : q <= p
         instOf(p, n) == IF MainPh(n) /\ ~Active("ph_per_part") THEN phid[n] ELSE tab[p][n]
         phos == {n \in DOMAIN phid : src.nodes[n].name = "o"}
                 \cup (IF Active("ph_per_part")
                       THEN {n \in 1..N : MainPh(n) /\ src.nodes[n].name = "o"
                                          /\ \E p \in 1..NPart : n \in DOMAIN tab[p]}
                       ELSE {})
         c == OutNode(src, "o")
         wrong == IF Bug = "any" THEN {TRUE, FALSE} ELSE {Active("wrong_part")}
     IN
     \E w \in wrong :
     /\ rn' = [j \in (id0)..(id0 + nd0 - 1) |-> deadNodes[j - id0 + 1]]
              @@ [j \in (id0 + nd0)..(id0 + nd0 + np - 1) |->
                    LET po == pouts[j - id0 - nd0 + 1] IN
                    [cl |-> PCl(po[1]) \o <<"Part_outputs">>, title |-> po[2],
                     fields |-> NoFields, plain |-> TRUE]]
              @@ [j \in (id0 + nd0 + np)..(id0 + nd0 + np + no - 1) |->
                    [cl |-> <<"Overall_outputs">>, title |-> src.overall[j - id0 - nd0 - np + 1],
                     fields |-> NoFields, plain |-> TRUE]]
              @@ rn
     /\ re' = re
              \o [j \in 1..np |-> [src |-> outid[pouts[j]], dst |-> id0 + nd0 + j - 1,
                                   lab |-> "", style |-> ""]]
              \o [j \in 1..no |->
                    LET nm == src.overall[j]  p == lastPart(nm) IN
                    [src |-> instOf(p, OutNode(src, nm)), dst |-> id0 + nd0 + np + j - 1,
                     lab |-> "", style |-> ""]]
              \o (IF TwoParts
                  THEN Flat([j \in 1..1 |->
                         LET ps == Asc(phos) IN
                         [i \in DOMAIN ps |->
                            [src |-> IF w /\ c \in DOMAIN tab[2] THEN tab[2][c] ELSE instOf(1, c),
                             dst |-> IF Active("ph_per_part") /\ ps[i] \notin DOMAIN phid
                                     THEN tab[2][ps[i]] ELSE phid[ps[i]],
                             lab |-> "", style |-> "dashed"]]], 1)
                  ELSE <<>>)
     /\ done' = TRUE
  /\ UNCHANGED <<src, todo, stack, tab, phid, fdone, outid>>

Next == StartOut \/ Follow \/ Complete \/ Finish \/ (done /\ UNCHANGED vars)

(***************************************************************************)
(* the rendering, in the form the relation reads                           *)
(***************************************************************************)
Ids == DOMAIN rn
\* a topological order of the rendered nodes (smallest ready id first); if
\* the rendering is cyclic the rest follows in id order and Acyclic fails
RECURSIVE Topo(_, _)
Topo(placed, rest) ==
  IF rest = {} THEN placed
  ELSE LET have == Range(placed)
           ready == {i \in rest : \A q \in DOMAIN re : re[q].dst = i => re[q].src \in have}
       IN IF ready = {} THEN placed \o Asc(rest)
          ELSE LET m == CHOOSE i \in ready : \A j \in ready : i <= j
               IN Topo(Append(placed, m), rest \ {m})
Rendering ==
  LET at == TLCEval(Topo(<<>>, Ids))
      pos == TLCEval([i \in Ids |-> CHOOSE k \in DOMAIN at : at[k] = i])
  IN [error |-> "",
      nodes |-> [k \in 1..Cardinality(Ids) |->
                   LET i == at[k]
                       ins == SelectSeq(re, LAMBDA e : e.dst = i)
                   IN [cl |-> rn[i].cl, title |-> rn[i].title, fields |-> rn[i].fields,
                       plain |-> rn[i].plain, oid |-> 0, nstmt |-> 1,
                       kids |-> [q \in DOMAIN ins |->
                                   [to |-> pos[ins[q].src], lab |-> ins[q].lab,
                                    style |-> ins[q].style]]]]]

Named(name, cond) == cond \/ (PrintT(<<"FAILED", name>>) /\ FALSE)
RefFaithful == done => FaithfulByClasses(Picture(src, {}), Rendering)
\* everything about the end of a behaviour, the picture and the rendering computed once
AtEnd ==
  done => LET P == TLCEval(Picture(src, {}))
              R == TLCEval(Rendering)
              fc == TLCEval(FaithfulByClasses(P, R))
          IN /\ Named("RefFaithful", Bug # "none" \/ fc)
             /\ Named("Agree", fc <=> FaithfulExplicit(P, R))
             /\ Named("ClauseExact", (ClauseForP(P, R) = "ok") <=> fc)
(***************************************************************************)
(* Generator (use G): every source of the space, one line each; the        *)
(* harness realises the main graph with real pytato nodes (one template    *)
(* per edge kind) and renders it with the real code.                       *)
(***************************************************************************)
JsonX == INSTANCE Json
Stutter == UNCHANGED vars
EmitShape ==
  PrintT(<<"SHAPE", JsonX!ToJson([ch |-> [i \in 1..N |-> [q \in DOMAIN src.nodes[i].kids |->
                                                            src.nodes[i].kids[q].to]],
                                  leaf |-> [i \in 1..N |-> src.nodes[i].kind = "ph"],
                                  o |-> OutNode(src, "o")])>>)

\* the walk always comes to its end (no stuck state short of done)
Progress == ~done => ENABLED (StartOut \/ Follow \/ Complete \/ Finish)
=============================================================================
