CONSTANTS MaxRanks = 8 MaxOps = 0 NTags = 1 Variants = FALSE MaxFaults = 0 EmitValid = FALSE MinOps = 0 Exhaustive = FALSE
INIT WFInit
NEXT WFNext
INVARIANT WFVerdict
CHECK_DEADLOCK FALSE
