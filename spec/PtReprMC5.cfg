CONSTANTS
  N = 5
  D = 2
  Mode = "ref"
INIT Init
NEXT Next
INVARIANTS Correct Linear
CHECK_DEADLOCK FALSE
