--------------------------- MODULE PtFnCacheTrace ---------------------------
(***************************************************************************)
(* Trace validation of the function-definition events of the REAL pytato   *)
(* mappers against the actions of PtFnCache (Share = TRUE: the design).    *)
(*                                                                         *)
(* A batch record (ptverif/fncache.py):                                    *)
(*   id      unique string                                                 *)
(*   nf      number of function definitions of the graph (classes of ==)   *)
(*   calls   calls[f + 1] = the definitions body f calls directly, f = 0   *)
(*           the caller's graph: from a REFLECTIVE walk over dataclass     *)
(*           fields, numbered so that callees exceed callers               *)
(*   events  [ev, g]: "hit" (rec_function_definition answered from the     *)
(*           cache / visited set), "enter" (map_function_definition of g   *)
(*           starts), "return" (it ends), observed by wrapping the three   *)
(*           rec_function_definition implementations from outside          *)
(* Event i is replayed through the PtFnCache action of the same name; the  *)
(* verdict names the first clause that rejects an event, or what is        *)
(* missing at the end.  One line <<"V", id, clause>> per record.           *)
(***************************************************************************)
EXTENDS PtFnCache, Json, IOUtils

Batch == JsonDeserialize(IOEnv.BATCH_FILE)

VARIABLES r, i, verdict
tvars == <<r, i, verdict>>

Rec == Batch[r]
Ev == Rec.events[i]
ToSet(s) == {s[j] : j \in DOMAIN s}

TInit == /\ r \in 1..Len(Batch)
         /\ i = 1
         /\ verdict = ""
         /\ calls = [f \in 0..NF |-> IF f + 1 <= Len(Batch[r].calls)
                                      THEN ToSet(Batch[r].calls[f + 1]) ELSE {}]
         /\ stack = <<Frame(0, {})>>
         /\ fcache = {}
         /\ entered = [g \in Defs |-> 0]

\* why the event is not a step of the specification
Why(e) ==
  IF e.ev = "return" THEN
       (IF Len(stack) = 1 THEN "return_without_frame"
        ELSE IF Top.fn # e.g THEN "return_of_another_definition"
        ELSE IF Top.asked # calls[Top.fn] THEN "AllReached:body_left_before_every_callee_was_asked"
        ELSE "ok")
  ELSE IF e.g \notin calls[Top.fn] THEN "definition_not_called_from_this_body"
  ELSE IF e.ev = "hit" THEN
       (IF Cached(e.g) THEN "ok" ELSE "hit_of_a_definition_never_mapped")
  ELSE IF e.ev = "enter" THEN
       (IF Cached(e.g) THEN "OncePerDefinition:function_definition_mapped_again" ELSE "ok")
  ELSE "unknown_event"

Step == /\ verdict = "" /\ i <= Len(Rec.events)
        /\ LET e == Ev w == Why(e) IN
           IF w # "ok" THEN /\ verdict' = w
                            /\ UNCHANGED <<vars, r, i>>
           ELSE /\ CASE e.ev = "hit" -> Hit(e.g)
                     [] e.ev = "enter" -> Enter(e.g)
                     [] e.ev = "return" -> Return
                /\ i' = i + 1
                /\ UNCHANGED <<r, verdict>>

Finish == /\ verdict = "" /\ i > Len(Rec.events)
          \* (nothing is demanded of the TOP frame: a mapper family may be applied to a
          \*  part of the graph only; every body that is entered is traversed completely)
          /\ verdict' = (IF Len(stack) > 1 THEN "unfinished_frame"
                         ELSE IF ~OncePerDefinition THEN "OncePerDefinition"
                         ELSE "ok")
          /\ UNCHANGED <<vars, r, i>>

TNext == Step \/ Finish
TSpec == TInit /\ [][TNext]_<<vars, tvars>>

Verdict == verdict # "" => PrintT(<<"V", Rec.id, verdict>>)
\* the specification's invariants hold along every accepted prefix
Inv == OncePerDefinition
=============================================================================
