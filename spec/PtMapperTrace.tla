---------------------------- MODULE PtMapperTrace ----------------------------
(***************************************************************************)
(* Trace validation (use E of DESIGN 2.1) of event sequences recorded from *)
(* the REAL pytato mappers against the actions of PtMapper.                *)
(*                                                                         *)
(* A batch record (ptverif/mapperharness.py, export_trace):                *)
(*   id      unique string                                                 *)
(*   v       variant [family, key, extra, cached, errcol, errdup] plus     *)
(*           ident (the mapper is a faithful copy: results are predicted)  *)
(*           and bound (structure preserving: NoMoreNodesThanGiven)        *)
(*   n, ch, rep, cls, need   the graph from the REFLECTIVE walk            *)
(*   events  [ev, n, x, res, ...], ev in enter | hit | return | collision  *)
(*           | dup;  a return of a transform mapper carries raw (the       *)
(*           object the map method returned), rawcl (its structural        *)
(*           class), res (what the cache stored), ret (what rec returned), *)
(*           fresh (raw is not an object seen before), och (the children   *)
(*           of raw, aligned with the input node's fields), lbl (raw has   *)
(*           the type and non-array fields of the input node)              *)
(*   outcome "ok" | "collision" | "dup"                                    *)
(*                                                                         *)
(* Every record is one behaviour: event i is replayed through the PtMapper *)
(* action of the same name; `Why` names the first clause that rejects an   *)
(* event.  Each event carries its node, so validation is linear.  One      *)
(* verdict line <<"V", id, clause, detail>> per record.                    *)
(***************************************************************************)
EXTENDS PtMapper, IOUtils

Batch == JsonDeserialize(IOEnv.BATCH_FILE)

VARIABLES r, i, verdict
tvars == <<r, i, verdict>>

Rec == Batch[r]
Ev == Rec.events[i]
Has(rec, f) == f \in DOMAIN rec

ToSet(s) == {s[j] : j \in DOMAIN s}

TInit ==
  /\ r \in 1..Len(Batch)
  /\ i = 1
  /\ verdict = ""
  /\ LET b == Batch[r] IN
     InitFor(b.n, b.ch, b.rep, b.cls, [k \in 1..b.n |-> ToSet(b.need[k])],
             [k \in 1..b.n |-> 0], <<>>, b.v)

\* the position of the top frame that a visit of node n belongs to: the first
\* field holding n that has not been visited yet; 0 = a top-level call or a
\* visit that corresponds to no field (e.g. an array of a derived shape),
\* which is allowed but fulfils no obligation.  Fields that must be visited
\* are served first (one array may sit in an optional and a required field).
PosOf(n) ==
  IF stack = <<>> THEN 0
  ELSE LET c == {p \in Undone(Top) : Ch[Top.node][p] = n}
           d == IF c \cap Need(Top.node) # {} THEN c \cap Need(Top.node) ELSE c
       IN IF d = {} THEN 0 ELSE CHOOSE p \in d : \A q \in d : p <= q

Key(e) == KeyOf(e.n, e.x)

\* expected children of a rebuilt node: the mapped child where it was
\* visited, the original child elsewhere
ExpectKids(f) == [p \in 1..Len(Ch[f.node]) |->
                    IF p \in f.done THEN f.kids[p] ELSE Ch[f.node][p]]

Missing(f) == CHOOSE p \in Need(f.node) \ f.done : TRUE

WhyReturnT(e, f) ==
  LET n == f.node
      SameE(ff) == Same(ff) /\ e.fsame   \* incl. the function definitions referred to
  IN
  IF e.raw # n /\ e.rawcl = ocl[n] /\ SameE(f) /\ ~InPool(e.rawcl)
       THEN (IF e.ev = "dup" THEN "ok" ELSE "IdentityWhenUnchanged:equal_copy_of_unchanged_node")
  ELSE IF e.ev = "dup" THEN "dup_error_without_created_duplicate"
  ELSE IF e.res # Stored(e.raw, e.rawcl)
       THEN (IF InPool(e.rawcl) THEN "SharedMapsToOne:equal_result_not_reused"
             ELSE "result_replaced_without_equal_predecessor")
  ELSE IF e.ret # e.res THEN "SharedMapsToOne:returned_object_is_not_the_cached_one"
  ELSE IF ~V.ident THEN "ok"
  ELSE IF SameE(f) /\ e.raw # n THEN "IdentityWhenUnchanged:result_is_not_the_input"
  ELSE IF ~SameE(f) /\ ~e.lbl THEN "rebuilt_node_differs_in_non_array_fields"
  ELSE IF ~SameE(f) /\ e.och # ExpectKids(f) THEN "rebuilt_node_has_wrong_children"
  ELSE "ok"

Why(e) ==
  CASE e.ev = "enter" ->
         IF V.cached /\ Key(e) \in DOMAIN cache THEN "OncePerKey:map_method_invoked_on_cached_key"
         ELSE "ok"
    [] e.ev = "hit" ->
         IF ~V.cached THEN "hit_in_uncached_mapper"
         ELSE IF Key(e) \notin DOMAIN cache THEN "OncePerKey:node_skipped_without_cached_result"
         ELSE IF V.errcol /\ cexpr[Key(e)] # e.n THEN "CollisionReported:silent_hit_on_other_object"
         ELSE IF V.family # "walk" /\ cache[Key(e)] # e.res THEN "SharedMapsToOne:hit_returns_other_object"
         ELSE "ok"
    [] e.ev = "collision" ->
         IF ~(V.cached /\ V.errcol) THEN "collision_in_mapper_without_detection"
         ELSE IF Key(e) \notin DOMAIN cache THEN "CollisionReported:collision_without_shared_key"
         ELSE IF cexpr[Key(e)] = e.n THEN "CollisionReported:collision_on_same_object"
         ELSE "ok"
    [] e.ev \in {"return", "dup"} ->
         IF stack = <<>> \/ Top.node # e.n THEN "return_does_not_match_stack"
         ELSE IF ~AllDone(Top) THEN "AllChildrenReached:child_not_visited"
         ELSE IF V.family = "transform" THEN WhyReturnT(e, Top)
         ELSE "ok"

Detail(e) ==
  IF e.ev \in {"return", "dup"} /\ stack # <<>> /\ Top.node = e.n /\ ~AllDone(Top)
  THEN <<i, e.n, Missing(Top)>> ELSE <<i, e.n>>

Step(e) ==
  CASE e.ev = "enter" -> Enter(e.n, e.x, PosOf(e.n))
    [] e.ev = "hit" -> Hit(e.n, e.x, PosOf(e.n))
    [] e.ev = "collision" -> Collide(e.n, e.x, PosOf(e.n))
    [] e.ev \in {"return", "dup"} ->
         IF V.family = "transform" THEN ReturnT(e.raw, e.rawcl, <<>>, e.fsame)
         ELSE ReturnO(e.res)

\* what must hold when the whole trace has been replayed
AtEnd ==
  LET out == Rec.outcome IN
  IF out = "raise" THEN "ok"      \* another exception: the harness judges it; prefix replayed
  ELSE IF out = "collision" THEN (IF err = "collision" THEN "ok" ELSE "outcome_collision_not_reproduced")
  ELSE IF out = "dup" THEN (IF err = "dup" THEN "ok" ELSE "outcome_dup_not_reproduced")
  ELSE IF err # "none" THEN "model_in_error_state_but_call_returned"
  ELSE IF stack # <<>> THEN "call_returned_with_open_frames"
  ELSE IF ~SharedMapsToOne THEN "SharedMapsToOne"
  ELSE IF ~ResultsDeduplicated THEN "ResultsDeduplicated"
  ELSE IF V.bound /\ Cardinality(Range(cache)) > Cardinality({ocl[cexpr[k]] : k \in DOMAIN cexpr})
       THEN "NoMoreNodesThanGiven"
  ELSE IF V.cached /\ V.errcol /\ ~V.extra /\
          \E a, b \in Range(cexpr) : a # b /\ KeyOf(a, 0) = KeyOf(b, 0)
       THEN "CollisionReported:two_objects_one_key_unnoticed"
  ELSE "ok"

TNext ==
  \/ /\ verdict = "" /\ i <= Len(Rec.events)
     /\ LET w == Why(Ev) IN
        IF w = "ok"
        THEN /\ Step(Ev) /\ i' = i + 1 /\ UNCHANGED <<r, verdict>>
        ELSE /\ verdict' = w /\ UNCHANGED <<r, i>> /\ UNCHANGED vars
  \/ /\ verdict = "" /\ i > Len(Rec.events)
     /\ verdict' = AtEnd /\ UNCHANGED <<r, i>> /\ UNCHANGED vars
  \/ verdict # "" /\ UNCHANGED tvars /\ UNCHANGED vars

Verdict ==
  verdict # "" =>
    PrintT(<<"V", Rec.id, verdict,
             IF i <= Len(Rec.events) THEN Detail(Ev) ELSE <<i>>>>)
=============================================================================
