-------------------------------- MODULE PtEq --------------------------------
(***************************************************************************)
(* Equality, hashing and the pickle life cycle of pytato nodes (C04), and  *)
(* the structural notions PtKey (C18) builds on.  Definitions only; the    *)
(* generators (PtEqGen, PtEqLife) and the validation module (PtEqCheck)    *)
(* EXTEND this module, so there is one source of truth.                    *)
(*                                                                         *)
(* 1. Fields[kind]: every dataclass field of every node kind with its role *)
(*      "c" component that takes part in equality                          *)
(*      "n" excluded from equality (non_equality_tags)                     *)
(*      "d" wrapped data: opaque, compared by identity of the data object  *)
(*    The harness compares this table reflectively with dataclasses.fields *)
(*    of every concrete node class of the implementation at run time; a    *)
(*    field or kind the table does not know is a machinery error.          *)
(* 2. Abstract members of a family (generator side): a node of kind k is a *)
(*    function field -> token; StructEqM is equality of all compared       *)
(*    fields.  This is what the generator predicts.                        *)
(* 3. Exported real structures (validation side): a family is one node     *)
(*    list shared by all members (children before parents, the same Python *)
(*    object is one node); Classes() hash-conses it bottom-up, so          *)
(*    StructEq(i, j) is equality of class numbers -- computed by TLC from  *)
(*    the reflective export, never by pytato's ==.                         *)
(* 4. The verdict clauses over an observed matrix (==, !=, hash, set/dict  *)
(*    membership, cached hashes after unpickling).                         *)
(* 5. The life cycle Build / Mutate1 / Hash / Pickle / Unpickle / Compare  *)
(*    as a step function over [objs, blobs] with the flag hashCached.      *)
(***************************************************************************)
EXTENDS Integers, Sequences, FiniteSets, TLC, SequencesExt

(***************************************************************************)
(* 1. node kinds and their fields                                          *)
(***************************************************************************)
Common == {<<"axes", "c">>, <<"tags", "c">>, <<"non_equality_tags", "n">>}
C(names) == {<<nm, "c">> : nm \in names}

ArrayKinds == {"Placeholder", "SizeParam", "DataWrapper", "IndexLambda", "Einsum",
               "Stack", "Concatenate", "Roll", "AxisPermutation", "Reshape",
               "BasicIndex", "AdvancedIndexInContiguousAxes",
               "AdvancedIndexInNoncontiguousAxes", "NamedArray", "NamedCallResult",
               "LoopyCallResult", "DistributedSendRefHolder", "DistributedRecv",
               "CSRMatmul"}
OtherKinds == {"DictOfNamedArrays", "FunctionDefinition", "Call", "LoopyCall",
               "DistributedSend", "CSRMatrix", "Axis", "ReductionDescriptor"}
Kinds == ArrayKinds \cup OtherKinds

Fields == [k \in Kinds |->
  CASE k = "Placeholder" -> Common \cup C({"shape", "dtype", "name"})
    [] k = "SizeParam"   -> Common \cup C({"name"})
    [] k = "DataWrapper" -> Common \cup C({"shape"}) \cup {<<"data", "d">>}
    [] k = "IndexLambda" -> Common \cup C({"shape", "dtype", "expr", "bindings",
                                          "var_to_reduction_descr"})
    [] k = "Einsum"      -> Common \cup C({"access_descriptors", "args",
                                          "redn_axis_to_redn_descr"})
    [] k \in {"Stack", "Concatenate"} -> Common \cup C({"arrays", "axis"})
    [] k = "Roll"        -> Common \cup C({"array", "shift", "axis"})
    [] k = "AxisPermutation" -> Common \cup C({"array", "axis_permutation"})
    [] k = "Reshape"     -> Common \cup C({"array", "newshape", "order"})
    [] k \in {"BasicIndex", "AdvancedIndexInContiguousAxes",
              "AdvancedIndexInNoncontiguousAxes"} -> Common \cup C({"array", "indices"})
    [] k \in {"NamedArray", "NamedCallResult", "LoopyCallResult"} ->
                            Common \cup C({"_container", "name"})
    [] k = "DictOfNamedArrays" -> C({"tags", "_data"})
    [] k = "FunctionDefinition" -> C({"parameters", "return_type", "returns", "tags"})
    [] k = "Call"        -> C({"tags", "function", "bindings"})
    [] k = "LoopyCall"   -> C({"tags", "translation_unit", "bindings", "entrypoint"})
    [] k = "DistributedSend" -> C({"data", "dest_rank", "comm_tag", "tags"})
    [] k = "DistributedSendRefHolder" -> C({"send", "passthrough_data"})
    [] k = "DistributedRecv" -> Common \cup C({"shape", "dtype", "src_rank", "comm_tag"})
    [] k = "CSRMatmul"   -> Common \cup C({"matrix", "array", "reduction_var",
                                          "reduction_descr"})
    [] k = "CSRMatrix"   -> Common \cup C({"shape", "dtype", "elem_values",
                                          "elem_col_indices", "row_starts"})
    [] k \in {"Axis", "ReductionDescriptor"} -> C({"tags"})]

FieldNames(k) == {p[1] : p \in Fields[k]}
RoleOf(k, f) == (CHOOSE p \in Fields[k] : p[1] = f)[2]
Compared(k) == {p[1] : p \in {q \in Fields[k] : q[2] # "n"}}

\* kinds that have a mapping-valued field with >= 2 entries in the catalogue
\* (the "perm" member rebuilds them in another insertion order)
PermKinds == {"IndexLambda", "Einsum", "DictOfNamedArrays", "FunctionDefinition",
              "Call", "LoopyCall"}

\* for the JSON dump read by the harness (reflective cross-check)
FieldTable == [k \in Kinds |-> [f \in FieldNames(k) |-> RoleOf(k, f)]]

(***************************************************************************)
(* 2. abstract members (what the generator predicts)                       *)
(*    token of an ordinary field: 0 = base value, 1 = the alternative.     *)
(*    token of a data field: 10 * (identity of the data object) + contents *)
(***************************************************************************)
DataMembers == {"data:copy", "data:elem", "data:dtype", "data:shape"}

MemberNames(k) ==
  <<"base", "rebuild", "foreign", "pick", "xpick">>
  \o (IF k \in PermKinds THEN <<"perm">> ELSE <<>>)
  \o (IF k = "DataWrapper" THEN <<"data:copy", "data:elem", "data:dtype", "data:shape">>
      ELSE <<>>)

Abs(k, m, f) ==
  LET role == RoleOf(k, f) IN
  IF role = "d" THEN
       CASE m \in {"base", "rebuild", "perm"} -> 0
         [] m = "pick" -> 10 [] m = "xpick" -> 20
         [] m = "data:copy" -> 40 [] m = "data:elem" -> 51
         [] m = "data:dtype" -> 62 [] m = "data:shape" -> 73
         [] m = "mut:" \o f -> 34
         [] OTHER -> 0
  ELSE IF m = "mut:" \o f THEN 1
  ELSE IF m = "data:shape" /\ f = "shape" THEN 1
  ELSE 0

\* mode "ident": C04's StructEq; "canon": C18's Canon (data by contents);
\* "strict": Canon that also looks at non_equality_tags
TokEq(k, f, mode, t1, t2) ==
  IF RoleOf(k, f) = "d" /\ mode # "ident" THEN t1 % 10 = t2 % 10 ELSE t1 = t2
FieldsFor(k, mode) == IF mode = "strict" THEN FieldNames(k) ELSE Compared(k)

EqM(k, mode, m1, m2) ==
  IF m1 = "foreign" \/ m2 = "foreign" THEN m1 = m2
  ELSE \A f \in FieldsFor(k, mode) : TokEq(k, f, mode, Abs(k, m1, f), Abs(k, m2, f))

(***************************************************************************)
(* 3. exported real structures                                             *)
(***************************************************************************)
IgnoredIn(mode) == IF mode = "strict" THEN {} ELSE {"non_equality_tags"}

RECURSIVE Sub(_, _, _)
Sub(v, cls, mode) ==
  CASE v.t = "n"   -> [t |-> "n", n |-> cls[v.n]]
    [] v.t = "tup" -> [t |-> "tup", e |-> [q \in DOMAIN v.e |-> Sub(v.e[q], cls, mode)]]
    [] v.t = "set" -> [t |-> "set", e |-> [q \in DOMAIN v.e |-> Sub(v.e[q], cls, mode)]]
    [] v.t = "map" -> [t |-> "map", e |-> [q \in DOMAIN v.e |->
                          <<Sub(v.e[q][1], cls, mode), Sub(v.e[q][2], cls, mode)>>]]
    [] v.t = "rec" -> [t |-> "rec", c |-> v.c, e |-> [q \in DOMAIN v.e |->
                          <<v.e[q][1], Sub(v.e[q][2], cls, mode)>>]]
    [] v.t = "data" -> IF mode = "ident" THEN [t |-> "data", oid |-> v.oid]
                       ELSE [t |-> "data", sha |-> v.sha, dshape |-> v.dshape,
                             ddtype |-> v.ddtype]
    [] OTHER -> v

\* a set must not contain node references (its exported order is the order of
\* the un-substituted elements)
RECURSIVE HasRef(_)
HasRef(v) ==
  CASE v.t = "n" -> TRUE
    [] v.t \in {"tup", "set"} -> \E q \in DOMAIN v.e : HasRef(v.e[q])
    [] v.t = "map" -> \E q \in DOMAIN v.e : HasRef(v.e[q][1]) \/ HasRef(v.e[q][2])
    [] v.t = "rec" -> \E q \in DOMAIN v.e : HasRef(v.e[q][2])
    [] OTHER -> FALSE
RECURSIVE SetsOK(_)
SetsOK(v) ==
  CASE v.t = "set" -> \A q \in DOMAIN v.e : ~HasRef(v.e[q])
    [] v.t = "tup" -> \A q \in DOMAIN v.e : SetsOK(v.e[q])
    [] v.t = "map" -> \A q \in DOMAIN v.e : ~HasRef(v.e[q][1]) /\ SetsOK(v.e[q][2])
    [] v.t = "rec" -> \A q \in DOMAIN v.e : SetsOK(v.e[q][2])
    [] OTHER -> TRUE

NodeKey(n, cls, mode) ==
  LET fs == SelectSeq(n.f, LAMBDA p : ~(p[1] \in IgnoredIn(mode)))
  IN [kind |-> n.kind, f |-> [q \in DOMAIN fs |-> <<fs[q][1], Sub(fs[q][2], cls, mode)>>]]

\* Classes(nodes, mode)[k] = smallest position of a node structurally equal to node k
\* (an iterative fold: FoldLeft is evaluated by a Java loop, so long node lists do
\* not deepen TLC's evaluation stack)
ClassStep(nodes, mode, acc, k) ==
  LET key  == TLCEval(NodeKey(nodes[k], acc.cls, mode))
      same == {j \in acc.reps : acc.keys[j] = key}
  IN IF same = {}
     THEN [cls |-> Append(acc.cls, k), keys |-> Append(acc.keys, key),
           reps |-> acc.reps \cup {k}]
     ELSE [cls |-> Append(acc.cls, CHOOSE j \in same : TRUE),
           keys |-> Append(acc.keys, key), reps |-> acc.reps]
Classes(nodes, mode) ==
  FoldLeft(LAMBDA acc, k : TLCEval(ClassStep(nodes, mode, acc, k)),
           [cls |-> <<>>, keys |-> <<>>, reps |-> {}],
           [k \in 1..Len(nodes) |-> k]).cls

\* machinery: every exported node is of a known kind with exactly the known fields
BadNodes(nodes) ==
  {k \in DOMAIN nodes :
      \/ ~(nodes[k].kind \in Kinds)
      \/ {nodes[k].f[q][1] : q \in DOMAIN nodes[k].f} # FieldNames(nodes[k].kind)
      \/ \E q \in DOMAIN nodes[k].f : ~SetsOK(nodes[k].f[q][2])}

(***************************************************************************)
(* 4. verdict clauses over an observed family                              *)
(*    rec: nodes, roots, eq, ne, hash, inset, indict, stale, unpickled     *)
(***************************************************************************)
EqIsStructEq(eq, SE, I) == {<<"EqIsStructEq", i, j>> : <<i, j>> \in
                               {p \in I \X I : eq[p[1]][p[2]] # SE[p[1]][p[2]]}}
NeIsNotEq(eq, ne, I) == {<<"NeIsNotEq", i, j>> : <<i, j>> \in
                               {p \in I \X I : ne[p[1]][p[2]] = eq[p[1]][p[2]]}}
Reflexive(eq, I) == {<<"Reflexive", i, i>> : i \in {q \in I : ~eq[q][q]}}
Symmetric(eq, I) == {<<"Symmetric", i, j>> : <<i, j>> \in
                               {p \in I \X I : p[1] < p[2] /\ eq[p[1]][p[2]] # eq[p[2]][p[1]]}}
Transitive(eq, I) == {<<"Transitive", t[1], t[2], t[3]>> : t \in
                               {q \in I \X I \X I : /\ eq[q[1]][q[2]] /\ eq[q[2]][q[3]]
                                                    /\ ~eq[q[1]][q[3]]}}
EqualImpliesSameHash(eq, h, I) == {<<"EqualImpliesSameHash", i, j>> : <<i, j>> \in
                               {p \in I \X I : /\ p[1] < p[2] /\ eq[p[1]][p[2]]
                                               /\ h[p[1]] # h[p[2]]}}
Hashable(h, I) == {<<"Hashable", i, i>> : i \in {q \in I : h[q] = "unhashable"}}
\* membership of member j in a set / dict that holds member i
Membership(name, m, SE, I) == {<<name, i, j>> : <<i, j>> \in
                               {p \in I \X I : m[p[1]][p[2]] # SE[p[1]][p[2]]}}
NoHashCacheAfterUnpickle(stale, I) ==
   {<<"NoHashCacheAfterUnpickle", i, i>> : i \in {q \in I : Len(stale[q]) > 0}}

FamilyFails(rec, SE, I) ==
       EqIsStructEq(rec.eq, SE, I) \cup NeIsNotEq(rec.eq, rec.ne, I)
  \cup Reflexive(rec.eq, I) \cup Symmetric(rec.eq, I) \cup Transitive(rec.eq, I)
  \cup EqualImpliesSameHash(rec.eq, rec.hash, I) \cup Hashable(rec.hash, I)
  \cup Membership("SetMembership", rec.inset, SE, I)
  \cup Membership("DictMembership", rec.indict, SE, I)
  \cup NoHashCacheAfterUnpickle(rec.stale, I)

(***************************************************************************)
(* 5. life cycle                                                           *)
(*    object: [proc, var, gen, cached, h]                                  *)
(*      var  0 = the subject as built, v > 0 = mutation number v applied   *)
(*      gen  identity generation of wrapped data (matters only for         *)
(*           subjects that contain a DataWrapper): 0 = built in this       *)
(*           process, n > 0 = n-th unpickling                              *)
(*      cached  the model's hashCached flag                                *)
(*      h    the hash observed ("" = never hashed)                         *)
(*    blob:  [var, gen, cached]   (cached: was the object hashed when      *)
(*           pickled -- the case NoHashCacheAfterUnpickle is about)        *)
(***************************************************************************)
LcInit == [objs |-> <<>>, blobs |-> <<>>, fresh |-> 1]

SameStruct(o1, o2, hasData) == o1.var = o2.var /\ (hasData => o1.gen = o2.gen)

Procs(s) == {s.objs[i].proc : i \in DOMAIN s.objs}

LcEnabled(s, ev, NP, NV) ==
  CASE ev.op = "build"    -> /\ ev.proc \in 1..NP /\ ev.var \in 0..NV
                             /\ (ev.proc > 1 => (ev.proc - 1) \in Procs(s))
    [] ev.op = "mutate"   -> /\ ev.obj \in DOMAIN s.objs /\ ev.var \in 1..NV
                             /\ s.objs[ev.obj].var = 0
    [] ev.op = "hash"     -> ev.obj \in DOMAIN s.objs
    [] ev.op = "pickle"   -> ev.obj \in DOMAIN s.objs
    [] ev.op = "unpickle" -> /\ ev.blob \in DOMAIN s.blobs /\ ev.proc \in 1..NP
                             /\ (ev.proc > 1 => (ev.proc - 1) \in Procs(s))
    [] ev.op = "compare"  -> /\ ev.a \in DOMAIN s.objs /\ ev.b \in DOMAIN s.objs
                             /\ s.objs[ev.a].proc = s.objs[ev.b].proc

\* ev.h is the observed hash (validation) or an abstract token (generator)
LcStep(s, ev) ==
  CASE ev.op = "build" ->
         [s EXCEPT !.objs = Append(@, [proc |-> ev.proc, var |-> ev.var, gen |-> 0,
                                       cached |-> FALSE, h |-> ""])]
    [] ev.op = "mutate" ->
         [s EXCEPT !.objs = Append(@, [proc |-> s.objs[ev.obj].proc, var |-> ev.var,
                                       gen |-> s.objs[ev.obj].gen,
                                       cached |-> FALSE, h |-> ""])]
    [] ev.op = "hash" ->
         [s EXCEPT !.objs[ev.obj].cached = TRUE, !.objs[ev.obj].h = ev.h]
    [] ev.op = "pickle" ->
         [s EXCEPT !.blobs = Append(@, [var |-> s.objs[ev.obj].var,
                                        gen |-> s.objs[ev.obj].gen,
                                        cached |-> s.objs[ev.obj].cached])]
    [] ev.op = "unpickle" ->
         [s EXCEPT !.objs = Append(@, [proc |-> ev.proc, var |-> s.blobs[ev.blob].var,
                                       gen |-> s.fresh, cached |-> FALSE, h |-> ""]),
                   !.fresh = @ + 1]
    [] ev.op = "compare" -> s

\* The clause an observed event violates in pre-state s ("ok" if none).
\* caches: does hashing the subject's root cache the value (generated __hash__)?
LcClause(s, ev, hasData, caches) ==
  CASE ev.op = "build"  -> IF ev.cached THEN "FreshObjectHasHashCache" ELSE "ok"
    [] ev.op = "mutate" -> IF ev.cached THEN "FreshObjectHasHashCache" ELSE "ok"
    [] ev.op = "hash" ->
         LET o == s.objs[ev.obj] IN
         IF ev.h = "unhashable" THEN "Hashable"
         ELSE IF o.h # "" /\ o.h # ev.h THEN "HashStable"
         ELSE IF \E j \in DOMAIN s.objs :
                    /\ s.objs[j].proc = o.proc /\ s.objs[j].h # ""
                    /\ SameStruct(s.objs[j], o, hasData) /\ s.objs[j].h # ev.h
              THEN "EqualImpliesSameHash"
         ELSE IF caches /\ ~ev.cached THEN "machinery:cache_model"
         ELSE "ok"
    [] ev.op = "pickle" ->
         \* vacuity guard: the model and the implementation agree on whether a
         \* cached hash existed when the object was pickled
         IF caches /\ ev.cached # s.objs[ev.obj].cached THEN "machinery:cache_model"
         ELSE "ok"
    [] ev.op = "unpickle" ->
         IF ev.cached \/ Len(ev.stale) > 0 THEN "NoHashCacheAfterUnpickle" ELSE "ok"
    [] ev.op = "compare" ->
         LET want == SameStruct(s.objs[ev.a], s.objs[ev.b], hasData) IN
         IF ev.eq # want THEN "EqIsStructEq"
         ELSE IF ev.ne = ev.eq THEN "NeIsNotEq"
         ELSE "ok"

\* model-level invariants of a life-cycle state (checked while generating)
LcNoHashCacheAfterUnpickle(s) ==
  \A i \in DOMAIN s.objs : (s.objs[i].gen > 0 /\ s.objs[i].h = "") => ~s.objs[i].cached
LcEqualImpliesSameHash(s, hasData) ==
  \A i, j \in DOMAIN s.objs :
     (/\ s.objs[i].proc = s.objs[j].proc /\ s.objs[i].h # "" /\ s.objs[j].h # ""
      /\ SameStruct(s.objs[i], s.objs[j], hasData)) => s.objs[i].h = s.objs[j].h
=============================================================================
