----------------------------- MODULE PtDotFancy -----------------------------
(***************************************************************************)
(* show_fancy_placeholder_data_flow ("visualizes the data-flow from the    *)
(* placeholders into outputs") as a picture in the terms of PtDot.         *)
(*                                                                         *)
(* Source: S.nodes (children first), every node with a category cat:       *)
(*   "ph" (placeholder, drawn under its name), "hidden" (data wrappers,    *)
(*   constant fills: never drawn), "ew", "remap", "einsum" (text = the     *)
(*   subscript specification), "stackconcat", "adv", "csr"; kids = the     *)
(*   operand positions; S.outputs = [name, node].                          *)
(* A node is SHOWN iff it is a placeholder or one of its operands is shown *)
(* (data flows into it from a placeholder).  The picture: one node per     *)
(* shown node with the look of its category, one edge per (shown operand,  *)
(* node) PAIR (the same operand twice is one edge), one node per output    *)
(* whose array is shown, with an edge from that array.                     *)
(* Nodes carry no identity here (operations are drawn as bare symbols), so *)
(* the relation is "same bag of structural classes": sound, and complete   *)
(* up to renderings that differ only in WHICH of two look-alike operations *)
(* an edge ends at.                                                        *)
(***************************************************************************)
EXTENDS PtDot

Look(cat) ==
  CASE cat = "ph" -> "lightgrey/ellipse"
    [] cat = "out" -> "springgreen/ellipse"
    [] cat \in {"ew", "remap"} -> "coral1/diamond"
    [] cat = "einsum" -> "crimson/box3d"
    [] cat = "stackconcat" -> "deepskyblue/folder"
    [] cat = "adv" -> "darkblue/hexagon"
    [] cat = "csr" -> "gold/star"
LookFld(cat) == [u \in {"_", "look"} |-> IF u = "_" THEN "" ELSE Look(cat)]

FancyPicture(S) ==
  LET N == Len(S.nodes)
      RECURSIVE shownUpTo(_)
      shownUpTo(k) == IF k = 0 THEN <<>>
                      ELSE LET prev == shownUpTo(k - 1)  nd == S.nodes[k] IN
                           Append(prev, nd.cat = "ph" \/
                                        (nd.cat # "hidden" /\ \E q \in DOMAIN nd.kids : prev[nd.kids[q]]))
      shown == TLCEval(shownUpTo(N))
      pos == TLCEval([k \in 1..N |-> Cardinality({j \in 1..k : shown[j]})])
      ks == Asc({k \in 1..N : shown[k]})
      nshown == Len(ks)
      nodeItems == [j \in DOMAIN ks |->
                      LET k == ks[j]  nd == S.nodes[k]
                          srcs == Asc({nd.kids[q] : q \in {z \in DOMAIN nd.kids : shown[nd.kids[z]]}})
                      IN Item(<<>>, nd.text, LookFld(nd.cat), NoFields, TRUE, 0,
                              [q \in DOMAIN srcs |-> Edge(pos[srcs[q]], "", "", FALSE)])]
      outs == SelectSeq(S.outputs, LAMBDA o : shown[o.node])
      outItems == [j \in DOMAIN outs |->
                     Item(<<>>, outs[j].name, LookFld("out"), NoFields, TRUE, 0,
                          <<Edge(pos[outs[j].node], "", "", FALSE)>>)]
  IN nodeItems \o outItems

\* a rendered edge drawn twice is one edge
DedupEdges(R) ==
  [R EXCEPT !.nodes = [r \in DOMAIN R.nodes |->
     [R.nodes[r] EXCEPT !.kids =
        LET ts == Asc({R.nodes[r].kids[q].to : q \in DOMAIN R.nodes[r].kids}) IN
        [q \in DOMAIN ts |-> [to |-> ts[q], lab |-> "", style |-> ""]]]]]

FancyClause(S, R) ==
  IF R.error # "" THEN R.error
  ELSE ClauseForP(FancyPicture(S), DedupEdges(R))
=============================================================================
