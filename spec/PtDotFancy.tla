----------------------------- MODULE PtDotFancy -----------------------------
EXTENDS Integers, Sequences, FiniteSets, TLC
FancyClause(S, R) == "ok"
=============================================================================
