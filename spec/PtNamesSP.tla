------------------------------ MODULE PtNamesSP ------------------------------
(***************************************************************************)
(* C15, third generator family: SIZE PARAMETERS.  Template: a placeholder  *)
(* "x" of shape (p,), p a size parameter named spName, one output key; the *)
(* output uses p also as a VALUE (out = x * p + 1).  Names are chosen to   *)
(* coincide with identifiers the code generator invents later (<out>_dim0  *)
(* loop variables, accumulators, temporaries).                             *)
(*   reject  the size parameter is named like the placeholder or like the  *)
(*           output key (two distinct entities, one user name)             *)
(*   accept  otherwise: the size parameter must be an argument of exactly  *)
(*           that name and the values must be NumPy's                      *)
(***************************************************************************)
EXTENDS Integers, Sequences, TLC, Json

CONSTANTS SPool, OPool
VARIABLES spName, outKey, emitted
Init == spName \in SPool /\ outKey \in OPool /\ emitted = FALSE
MustReject == spName = "x" \/ spName = outKey \/ outKey = "x"
Emit == /\ ~emitted /\ emitted' = TRUE
        /\ PrintT(<<"NAMING", ToJson([ins |-> <<"x">>, sp |-> spName, outs |-> <<outKey>>,
                                      expect |-> IF MustReject THEN "reject" ELSE "accept"])>>)
        /\ UNCHANGED <<spName, outKey>>
Next == Emit
=============================================================================
