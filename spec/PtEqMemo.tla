------------------------------ MODULE PtEqMemo ------------------------------
(***************************************************************************)
(* The memoised pairwise comparison of pytato's EqualityComparer as a      *)
(* state machine (use M), checked on EVERY pair of expressions over a pool *)
(* of N nodes with arbitrary sharing inside and between the two            *)
(* expressions:                                                            *)
(*     rec(a, b):  a is b            -> TRUE          ("same")              *)
(*                 kind differs      -> FALSE         ("kind")              *)
(*                 (a, b) in memo    -> memo[a, b]    ("hit")               *)
(*                 otherwise compare the children pairwise, left to right, *)
(*                 stop at the first FALSE, store the result in memo       *)
(*                 ("enter" ... "return").                                 *)
(* Invariants: OncePerPair (a pair is entered at most once -- this is what *)
(* makes the comparison linear instead of exponential in the depth of a    *)
(* DAG with sharing), MemoSound (every memo entry is StructEq of its       *)
(* pair), ResultIsStructEq (at the end).  The same three clauses are       *)
(* judged on event traces of the real comparer by PtEqCheck (rel "memo").  *)
(***************************************************************************)
EXTENDS Integers, Sequences, FiniteSets, TLC

CONSTANTS N,                   \* size of the node pool
          UseMemo              \* FALSE: the comparer without its memo (selftest)

Kinds == {"x", "y", "op"}
\* node i: a leaf "x"/"y", or an "op" over two earlier nodes
NodeChoices(i) == {[kind |-> k, ch |-> <<>>] : k \in {"x", "y"}}
             \cup {[kind |-> "op", ch |-> <<l, r>>] : l \in 1..(i - 1), r \in 1..(i - 1)}

VARIABLES pool, ra, rb, stack, memo, enters, result
vars == <<pool, ra, rb, stack, memo, enters, result>>

RECURSIVE SE(_, _, _)
SE(p, i, j) == /\ p[i].kind = p[j].kind
               /\ Len(p[i].ch) = Len(p[j].ch)
               /\ \A k \in DOMAIN p[i].ch : SE(p, p[i].ch[k], p[j].ch[k])

Init == /\ pool \in {f \in [1..N -> UNION {NodeChoices(i) : i \in 1..N}] :
                        \A i \in 1..N : f[i] \in NodeChoices(i)}
        /\ ra \in 1..N /\ rb \in 1..N
        /\ stack = <<[a |-> ra, b |-> rb, phase |-> "call", k |-> 1]>>
        /\ memo = <<>>          \* function from pairs to BOOLEAN (as a record set below)
        /\ enters = [p \in (1..N) \X (1..N) |-> 0]
        /\ result = "none"

MemoDom == {memo[q][1] : q \in DOMAIN memo}
MemoVal(p) == (CHOOSE q \in DOMAIN memo : memo[q][1] = p)
MemoOf(p) == memo[MemoVal(p)][2]

\* deliver the value v of the top frame to its parent (or finish)
Deliver(v, rest, m) ==
  IF rest = <<>> THEN /\ result' = (IF v THEN "T" ELSE "F") /\ stack' = <<>> /\ memo' = m
  ELSE LET par == rest[Len(rest)]
           up  == SubSeq(rest, 1, Len(rest) - 1) IN
       IF v THEN /\ stack' = Append(up, [par EXCEPT !.k = @ + 1])
                 /\ memo' = m /\ UNCHANGED result
       ELSE \* short circuit: the parent is FALSE as well
            /\ stack' = Append(up, [par EXCEPT !.phase = "false"])
            /\ memo' = m /\ UNCHANGED result

Step ==
  /\ stack # <<>>
  /\ LET top  == stack[Len(stack)]
         rest == SubSeq(stack, 1, Len(stack) - 1)
         a == top.a b == top.b IN
     CASE top.phase = "call" ->
            IF a = b THEN Deliver(TRUE, rest, memo) /\ UNCHANGED enters
            ELSE IF pool[a].kind # pool[b].kind
                 THEN Deliver(FALSE, rest, memo) /\ UNCHANGED enters
            ELSE IF UseMemo /\ <<a, b>> \in MemoDom
                 THEN Deliver(MemoOf(<<a, b>>), rest, memo) /\ UNCHANGED enters
            ELSE /\ stack' = Append(rest, [top EXCEPT !.phase = "children"])
                 /\ enters' = [enters EXCEPT ![<<a, b>>] = @ + 1]
                 /\ UNCHANGED <<memo, result>>
       [] top.phase = "children" ->
            IF top.k > Len(pool[a].ch)
            THEN Deliver(TRUE, rest, Append(memo, <<<<a, b>>, TRUE>>)) /\ UNCHANGED enters
            ELSE /\ stack' = Append(stack, [a |-> pool[a].ch[top.k], b |-> pool[b].ch[top.k],
                                            phase |-> "call", k |-> 1])
                 /\ UNCHANGED <<memo, enters, result>>
       [] top.phase = "false" ->
            Deliver(FALSE, rest, Append(memo, <<<<a, b>>, FALSE>>)) /\ UNCHANGED enters

Next == Step /\ UNCHANGED <<pool, ra, rb>>
Spec == Init /\ [][Next]_vars

OncePerPair == \A p \in DOMAIN enters : enters[p] <= 1
MemoSound == \A q \in DOMAIN memo : memo[q][2] = SE(pool, memo[q][1][1], memo[q][1][2])
MemoFunctional == \A q1, q2 \in DOMAIN memo : memo[q1][1] = memo[q2][1] => q1 = q2
ResultIsStructEq == result # "none" => (result = "T") = SE(pool, ra, rb)
Terminates == <>(stack = <<>>)
=============================================================================
