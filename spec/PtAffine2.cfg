CONSTANTS NP = 2
  CMin <- Neg3
  CMax = 3
INIT Init
NEXT Next
INVARIANT DecidedByCoefficients
CHECK_DEADLOCK FALSE
