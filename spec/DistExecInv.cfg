INIT Init
NEXT Next
INVARIANT NoCrash
INVARIANT NoSpin
INVARIANT FaithfulRecv
INVARIANT NoUseAfterRelease
INVARIANT NoReadBeforeProduced
INVARIANT OutputsPresent
INVARIANT DeadlockFree
INVARIANT NoLeftovers
INVARIANT HaltedIsDisabled
CHECK_DEADLOCK FALSE
