------------------------------ MODULE PtAffine ------------------------------
(***************************************************************************)
(* C16: shape components that are affine forms in size parameters.         *)
(* A form over NP parameters is a tuple <<c0, c1, ..., cNP>> denoting      *)
(* c0 + c1*p1 + ... + cNP*pNP.                                             *)
(*                                                                         *)
(* M: TLC proves on the whole scope (all pairs of forms with coefficients  *)
(*    in CMin..CMax) that equality of coefficients coincides with equality *)
(*    on an affinely spanning grid of NON-NEGATIVE valuations (origin and  *)
(*    unit points) and on the larger grid 0..2 per parameter: equality     *)
(*    "for all non-negative parameter values" is decided completely by the *)
(*    coefficients.                                                        *)
(* E: decisions recorded from the real are_shape_components_equal and from *)
(*    broadcasting / stacking / einsum axis matching are validated against *)
(*    CoeffEq.                                                             *)
(***************************************************************************)
EXTENDS Integers, Sequences, TLC, Json, IOUtils

CONSTANTS NP, CMin, CMax
Neg3 == -3     \* (a cfg file cannot hold a negative literal)

Forms == [1..(NP + 1) -> CMin..CMax]
Valuations(hi) == [1..NP -> 0..hi]
Eval(f, v) == LET RECURSIVE S(_)
                  S(k) == IF k > NP THEN 0 ELSE f[k + 1] * v[k] + S(k + 1)
              IN f[1] + S(1)
CoeffEq(f, g) == \A k \in 1..(NP + 1) : f[k] = g[k]
Unit(k) == [j \in 1..NP |-> IF j = k THEN 1 ELSE 0]
Origin == [j \in 1..NP |-> 0]
SpanGrid == {Origin} \cup {Unit(k) : k \in 1..NP}
GridEq(f, g) == \A v \in SpanGrid : Eval(f, v) = Eval(g, v)
GridEq2(f, g) == \A v \in Valuations(2) : Eval(f, v) = Eval(g, v)
IsConst(f, c) == f[1] = c /\ \A k \in 2..(NP + 1) : f[k] = 0

VARIABLES a, b, r
Init == a \in Forms /\ b \in Forms /\ r = 0
Next == UNCHANGED <<a, b, r>>
DecidedByCoefficients == (CoeffEq(a, b) <=> GridEq(a, b)) /\ (CoeffEq(a, b) <=> GridEq2(a, b))

\* ---- validation of recorded decisions
Batch == JsonDeserialize(IOEnv.BATCH_FILE)
CheckInit == r \in 1..Len(Batch) /\ a = <<>> /\ b = <<>>
Pad(f) == [k \in 1..(NP + 1) |-> IF k <= Len(f) THEN f[k] ELSE 0]
Clause(rec) ==
  LET f == Pad(rec.a) g == Pad(rec.b) eq == CoeffEq(f, g) IN
  IF rec.equal # eq THEN "are_shape_components_equal"
  ELSE IF "bcast" \in DOMAIN rec /\ rec.bcast # (eq \/ IsConst(f, 1) \/ IsConst(g, 1))
       THEN "broadcast_decision"
  ELSE IF "stack" \in DOMAIN rec /\ rec.stack # eq THEN "stack_decision"
  ELSE IF "einsum" \in DOMAIN rec /\ rec.einsum # (eq \/ IsConst(f, 1) \/ IsConst(g, 1))
       THEN "einsum_decision"
  ELSE "ok"
Verdict == PrintT(<<"V", Batch[r].id, Clause(Batch[r])>>)
=============================================================================
