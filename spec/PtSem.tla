------------------------------- MODULE PtSem -------------------------------
(***************************************************************************)
(* Denotation of array-expression graphs.                                  *)
(*                                                                         *)
(* A graph is a record  [nodes |-> <<node, ...>>, outs |-> <<[name, node]>>,*)
(* funcs |-> <<function bodies>>]; every node refers to EARLIER positions  *)
(* only, so sharing is arbitrary and acyclicity holds by construction.     *)
(* Val(g, inp) is the sequence of the values of all nodes; a value is the  *)
(* array flattened in C order.                                             *)
(*                                                                         *)
(* Value domain (DESIGN 2.4, merged into one sort):                        *)
(*   exact integers  -OFF < v < OFF     (indices, sizes, index data, bools)*)
(*   data residues   OFF + r, 0 <= r < P (elements of GF(P), P = 10007)    *)
(*   POISON          result of an out-of-bounds / ill-defined access       *)
(* + - * / on data are field operations, every other function of data is a *)
(* fixed pseudo-random table (uninterpreted function).  With an injective  *)
(* valuation of the inputs this decides pure index remapping for ALL       *)
(* inputs, and polynomial identities with error <= deg/P per valuation.    *)
(***************************************************************************)
EXTENDS PtCore

P == 10007
OFF == 1000000
POISON == 9000000

IsExact(v) == v < OFF
ToD(v) == IF v >= OFF THEN v - OFF ELSE v % P
D(r) == OFF + r
Norm(n) == IF n >= OFF \/ n <= -OFF THEN D(n % P) ELSE n

RECURSIVE PowMod(_, _)
PowMod(b, e) == IF e = 0 THEN 1
                ELSE LET h == PowMod(b, e \div 2)
                         s == (h * h) % P
                     IN IF e % 2 = 1 THEN (s * b) % P ELSE s
InvMod(x) == IF x = 0 THEN 0 ELSE PowMod(x, P - 2)

\* uninterpreted functions: fixed pseudo-random tables on residues
UF(fid, x) == LET y  == (x + fid * 131 + 7) % P
                  y2 == (y * y) % P
                  y3 == (y2 * y) % P
              IN (y3 * 17 + y * 5 + fid * 29) % P
UF2(fid, x, y) == UF(fid, (UF(fid + 1, x) + 3 * UF(fid + 2, y)) % P)

Truth(v) == IF v < OFF THEN v # 0 ELSE UF(901, v - OFF) % 2 = 1
B2I(b) == IF b THEN 1 ELSE 0

RECURSIVE ExactPow(_, _)
ExactPow(a, n) == IF n = 0 THEN 1
                  ELSE LET r == ExactPow(a, n - 1)
                       IN IF Abs(r) < 30000 /\ Abs(a) < 30000 THEN r * a ELSE POISON

\* Binary operations.  Comparison ids: lt 911, le 912; gt/ge are the swapped forms.
BinOp(op, a, b) ==
  IF a >= POISON \/ b >= POISON THEN POISON
  ELSE LET ex == a < OFF /\ b < OFF IN
  CASE op = "add" -> IF ex THEN Norm(a + b) ELSE D((ToD(a) + ToD(b)) % P)
    [] op = "sub" -> IF ex THEN Norm(a - b) ELSE D((ToD(a) + P - ToD(b)) % P)
    [] op = "mul" -> IF ex /\ Abs(a) < 30000 /\ Abs(b) < 30000 THEN Norm(a * b)
                     ELSE D((ToD(a) * ToD(b)) % P)
    [] op = "quot" -> D((ToD(a) * InvMod(ToD(b))) % P)
    [] op = "fdiv" -> IF ex /\ b # 0 THEN PyDiv(a, b) ELSE D(UF2(921, ToD(a), ToD(b)))
    [] op = "mod"  -> IF ex /\ b # 0 THEN PyMod(a, b) ELSE D(UF2(924, ToD(a), ToD(b)))
    [] op = "pow"  -> IF ex /\ b >= 0 /\ b <= 8 /\ ExactPow(a, b) # POISON
                      THEN Norm(ExactPow(a, b)) ELSE D(UF2(927, ToD(a), ToD(b)))
    [] op = "lt" -> IF ex THEN B2I(a < b) ELSE UF2(911, ToD(a), ToD(b)) % 2
    [] op = "gt" -> IF ex THEN B2I(a > b) ELSE UF2(911, ToD(b), ToD(a)) % 2
    [] op = "le" -> IF ex THEN B2I(a <= b) ELSE UF2(914, ToD(a), ToD(b)) % 2
    [] op = "ge" -> IF ex THEN B2I(a >= b) ELSE UF2(914, ToD(b), ToD(a)) % 2
    [] op = "eq" -> B2I(ToD(a) = ToD(b) /\ (ex => a = b))
    [] op = "ne" -> B2I(~(ToD(a) = ToD(b) /\ (ex => a = b)))
    [] op = "and" -> B2I(Truth(a) /\ Truth(b))
    [] op = "or"  -> B2I(Truth(a) \/ Truth(b))
    [] op = "band" -> IF ex /\ a \in {0, 1} /\ b \in {0, 1} THEN B2I(a = 1 /\ b = 1)
                      ELSE D(UF2(931, ToD(a), ToD(b)))
    [] op = "bor"  -> IF ex /\ a \in {0, 1} /\ b \in {0, 1} THEN B2I(a = 1 \/ b = 1)
                      ELSE D(UF2(934, ToD(a), ToD(b)))
    [] op = "bxor" -> IF ex /\ a \in {0, 1} /\ b \in {0, 1} THEN B2I(a # b)
                      ELSE D(UF2(937, ToD(a), ToD(b)))
    \* max / min: an associative, commutative, idempotent operation (a total
    \* order on the value domain) -- all that reductions need
    [] op = "max" -> IF a >= b THEN a ELSE b
    [] op = "min" -> IF a <= b THEN a ELSE b

Neutral(op) == CASE op = "add" -> 0 [] op = "mul" -> 1 [] op = "and" -> 1
                 [] op = "or" -> 0 [] op = "max" -> POISON [] op = "min" -> POISON

RECURSIVE FoldOp(_, _, _)
FoldOp(op, s, k) ==   \* fold of op over s[k..Len(s)], s non-empty
  IF k = Len(s) THEN s[k] ELSE BinOp(op, s[k], FoldOp(op, s, k + 1))
Fold(op, s) == IF Len(s) = 0 THEN Neutral(op)
               ELSE IF op \in {"and", "or"} THEN BinOp(op, FoldOp(op, s, 1), Neutral(op))
               ELSE FoldOp(op, s, 1)

RedOpOf(name) == CASE name = "sum" -> "add" [] name = "product" -> "mul"
                   [] name = "max" -> "max" [] name = "min" -> "min"
                   [] name = "all" -> "and" [] name = "any" -> "or"

Unary(fid, v) == IF v >= POISON THEN POISON ELSE D(UF(fid, ToD(v)))
\* (zero is exact under every cast, in both spellings: eliminate_dead_code writes the
\*  INTEGER literal 0 into float-typed index lambdas, and 0 == 0.0 makes such a node equal
\*  to -- and merged with -- pt.zeros of the same shape)
Cast(fid, v, nocast) == IF nocast \/ v < OFF \/ v >= POISON \/ v = OFF THEN v
                        ELSE D(UF(fid, v - OFF))
LNot(v) == IF v >= POISON THEN POISON ELSE B2I(~Truth(v))

(***************************************************************************)
(* Scalar expressions (the body of an index lambda).                       *)
(* cx = [bind |-> name -> node position, vals, shapes, nocast]             *)
(* ix = the output multi-index, env = reduction variable -> value          *)
(***************************************************************************)
Lookup(cx, name, idx) ==
  LET p == cx.bind[name] s == cx.shapes[p] IN
  IF \E j \in DOMAIN idx : idx[j] >= OFF \/ idx[j] <= -OFF THEN POISON
  ELSE IF ~InBounds(idx, s) THEN POISON
  ELSE cx.vals[p][FlatC(idx, s) + 1]

RECURSIVE Ev(_, _, _, _)
RECURSIVE EvRed(_, _, _, _, _)
RECURSIVE EvAll(_, _, _, _, _)

Ev(e, ix, env, cx) ==
  LET k == e.k IN
  CASE k = "c"   -> e.v
    [] k = "cd"  -> D(e.v)
    [] k = "nan" -> D(4242)
    [] k = "ix"  -> ix[e.d + 1]
    [] k = "rv"  -> env[e.n]
    [] k = "bv"  -> cx.vals[cx.bind[e.n]][1]
    [] k = "sub" -> Lookup(cx, e.a, [j \in 1..Len(e.i) |-> Ev(e.i[j], ix, env, cx)])
    [] k \in {"add", "mul", "band", "bor", "bxor", "max", "min"} ->
          Fold(k, [j \in 1..Len(e.c) |-> Ev(e.c[j], ix, env, cx)])
    [] k \in {"quot", "fdiv", "mod", "pow", "sub2"} ->
          BinOp(IF k = "sub2" THEN "sub" ELSE k,
                Ev(e.a, ix, env, cx), Ev(e.b, ix, env, cx))
    [] k = "cmp" -> BinOp(e.op, Ev(e.a, ix, env, cx), Ev(e.b, ix, env, cx))
    [] k = "and" -> EvAll("and", e.c, ix, env, cx)
    [] k = "or"  -> EvAll("or", e.c, ix, env, cx)
    [] k = "not" -> LNot(Ev(e.a, ix, env, cx))
    [] k = "if"  -> LET c == Ev(e.c, ix, env, cx) IN
                    IF c >= POISON THEN POISON
                    ELSE IF Truth(c) THEN Ev(e.t, ix, env, cx) ELSE Ev(e.e, ix, env, cx)
    [] k = "call" -> IF Len(e.p) = 1 THEN Unary(e.f, Ev(e.p[1], ix, env, cx))
                     ELSE IF Len(e.p) = 0 THEN D(UF(e.f, 1))
                     ELSE LET a == Ev(e.p[1], ix, env, cx) b == Ev(e.p[2], ix, env, cx)
                          IN IF a >= POISON \/ b >= POISON THEN POISON
                             ELSE D(UF2(e.f, ToD(a), ToD(b)))
    [] k = "cast" -> Cast(e.f, Ev(e.a, ix, env, cx), cx.nocast)
    [] k = "red"  -> EvRed(e, 1, ix, env, cx)

\* short-circuit logical and / or, left to right
EvAll(op, cs, ix, env, cx) ==
  IF Len(cs) = 0 THEN Neutral(op)
  ELSE LET h == Ev(Head(cs), ix, env, cx) IN
       IF h >= POISON THEN POISON
       ELSE IF op = "and" /\ ~Truth(h) THEN 0
       ELSE IF op = "or" /\ Truth(h) THEN 1
       ELSE IF Len(cs) = 1 THEN B2I(Truth(h))
       ELSE EvAll(op, Tail(cs), ix, env, cx)

\* reduction over the bounds e.b[bi..]; each bound is [v, lo, hi), hi exclusive
EvRed(e, bi, ix, env, cx) ==
  IF bi > Len(e.b) THEN Ev(e.a, ix, env, cx)
  ELSE LET b  == e.b[bi]
           lo == Ev(b.lo, ix, env, cx)
           hi == Ev(b.hi, ix, env, cx)
       IN IF lo >= OFF \/ hi >= OFF THEN POISON
          ELSE Fold(RedOpOf(e.op),
                    [t \in 1..(IF hi > lo THEN hi - lo ELSE 0) |->
                       EvRed(e, bi + 1, ix, (b.v :> (lo + t - 1)) @@ env, cx)])

(***************************************************************************)
(* Index items of indexing nodes.                                          *)
(*   [t |-> "int", v]                                                      *)
(*   [t |-> "nslice", start, stop, step]      pytato's NormalizedSlice     *)
(*   [t |-> "slice", start, stop, step]       raw Python slice, optionals  *)
(*   [t |-> "arr", n]                         index array (node position)  *)
(***************************************************************************)
ItemLen(it, n) ==
  CASE it.t = "nslice" -> RangeLen(it.start, it.stop, it.step)
    [] it.t = "slice"  -> SliceLen(it.start, it.stop, it.step, n)
ItemAt(it, n, t) ==
  CASE it.t = "nslice" -> it.start + t * it.step
    [] it.t = "slice"  -> SliceAt(it.start, it.step, n, t)
IsSliceItem(it) == it.t \in {"nslice", "slice"}

\* positions of "advanced" items: arrays, and ints when an array is present
AdvPositions(items) ==
  IF \E j \in DOMAIN items : items[j].t = "arr"
  THEN {j \in DOMAIN items : items[j].t \in {"arr", "int"}}
  ELSE {}
AdvContiguous(items) ==
  LET A == AdvPositions(items) IN
  A = {} \/ \A j \in DOMAIN items :
              (\E a \in A : a <= j) /\ (\E a \in A : a >= j) => j \in A
SetMin(S) == CHOOSE x \in S : \A y \in S : x <= y

\* shapes of the index arrays (ints are 0-d)
AdvShapes(items, shapes) ==
  LET A == AdvPositions(items) IN
  [j \in 1..Len(items) |-> IF j \in A /\ items[j].t = "arr" THEN shapes[items[j].n] ELSE <<>>]

RECURSIVE SeqOfSet(_)
SeqOfSet(S) == IF S = {} THEN <<>> ELSE LET m == SetMin(S) IN <<m>> \o SeqOfSet(S \ {m})

IndexResultShape(items, ashape, shapes) ==
  LET A    == AdvPositions(items)
      bsh  == BShapeAll([q \in 1..Cardinality(A) |-> AdvShapes(items, shapes)[SeqOfSet(A)[q]]])
      sl(j) == IF IsSliceItem(items[j]) THEN <<ItemLen(items[j], ashape[j])>> ELSE <<>>
      RECURSIVE Cat(_)
      Cat(j) == IF j > Len(items) THEN <<>> ELSE sl(j) \o Cat(j + 1)
      RECURSIVE CatC(_)
      CatC(j) == IF j > Len(items) THEN <<>>
                 ELSE (IF j = SetMin(A) THEN bsh ELSE sl(j)) \o CatC(j + 1)
  IN IF A = {} THEN Cat(1)
     ELSE IF AdvContiguous(items) THEN CatC(1)
     ELSE bsh \o Cat(1)

\* the source multi-index (or POISON in a component) for result index i
IndexSource(items, ashape, shapes, vals, i) ==
  LET A     == AdvPositions(items)
      aseq  == SeqOfSet(A)
      bsh   == BShapeAll([q \in 1..Len(aseq) |-> AdvShapes(items, shapes)[aseq[q]]])
      nb    == Len(bsh)
      contig == AdvContiguous(items)
      \* number of slice items strictly before position j
      nsl(j) == Cardinality({q \in 1..(j - 1) : IsSliceItem(items[q])})
      bstart == IF A = {} THEN 0
                ELSE IF contig THEN nsl(SetMin(A)) ELSE 0
      bidx  == SubSeq(i, bstart + 1, bstart + nb)
      \* position in i of the slice item at j
      spos(j) == IF A = {} THEN nsl(j) + 1
                 ELSE IF contig THEN (IF j < SetMin(A) THEN nsl(j) + 1 ELSE nsl(j) + nb + 1)
                 ELSE nb + nsl(j) + 1
      wrap(v, n) == IF v >= OFF \/ v <= -OFF THEN POISON
                    ELSE IF v < -n \/ v >= n THEN POISON
                    ELSE IF v < 0 THEN v + n ELSE v
  IN [j \in 1..Len(items) |->
        LET it == items[j] n == ashape[j] IN
        CASE it.t = "int" -> wrap(it.v, n)
          [] IsSliceItem(it) -> ItemAt(it, n, i[spos(j)])
          [] it.t = "arr" -> LET s == shapes[it.n]
                             IN wrap(vals[it.n][FlatC(BIndex(bidx, s), s) + 1], n)]

(***************************************************************************)
(* Node values.                                                            *)
(***************************************************************************)
AtIdx(vals, shapes, p, idx) ==
  IF \E j \in DOMAIN idx : idx[j] >= POISON THEN POISON
  ELSE IF ~InBounds(idx, shapes[p]) THEN POISON
  ELSE vals[p][FlatC(idx, shapes[p]) + 1]

\* operand of a high-level op: a node position or a scalar constant expression
OperandAt(x, vals, shapes, i) ==
  IF "n" \in DOMAIN x THEN AtIdx(vals, shapes, x.n, BIndex(i, shapes[x.n]))
  ELSE Ev(x.c, <<>>, <<>>, [bind |-> <<>>, vals |-> <<>>, shapes |-> <<>>, nocast |-> TRUE])

\* einsum: access descriptors acc[a][j] = [t |-> "e" or "r", d |-> k]
EinsumRedExtent(nd, d) ==
  LET lens == UNION {{ nd.shp[a][j] : j \in {q \in DOMAIN nd.acc[a] :
                        nd.acc[a][q].t = "r" /\ nd.acc[a][q].d = d} } : a \in DOMAIN nd.acc}
  IN IF lens = {} THEN 0 ELSE IF lens = {1} THEN 1 ELSE CHOOSE x \in lens : x # 1

RECURSIVE EinsumSum(_, _, _, _, _, _)
EinsumSum(nd, vals, shapes, i, rdim, renv) ==
  \* rdim: next reduction dim to bind; renv: sequence of bound reduction indices
  IF rdim > nd.nred THEN
     Fold("mul", [a \in 1..Len(nd.args) |->
        AtIdx(vals, shapes, nd.args[a],
              [j \in 1..Len(nd.acc[a]) |->
                 LET ds == nd.acc[a][j] len == shapes[nd.args[a]][j] IN
                 LET full == IF ds.t = "e" THEN i[ds.d + 1] ELSE renv[ds.d + 1] IN
                 IF len = 1 THEN 0 ELSE full])])
  ELSE Fold("add", [t \in 1..nd.rext[rdim] |->
          EinsumSum(nd, vals, shapes, i, rdim + 1, Append(renv, t - 1))])

RECURSIVE Val(_, _, _)

NodeElem(g, nd, vals, shapes, inp, nocast, i) ==
  LET k == nd.kind IN
  CASE k = "il" ->
         Ev(nd.expr, i, <<>>, [bind |-> nd.bind, vals |-> vals, shapes |-> shapes,
                               nocast |-> nocast])
    [] k = "alias" -> AtIdx(vals, shapes, nd.a, i)
    [] k = "stack" ->
         LET ax == nd.axis + 1 IN
         AtIdx(vals, shapes, nd.arrays[i[ax] + 1], DropAt(i, ax))
    [] k = "concat" ->
         LET ax == nd.axis + 1
             ext(q) == shapes[nd.arrays[q]][ax]
             RECURSIVE Find(_, _)
             Find(q, off) == IF q > Len(nd.arrays) THEN POISON
                             ELSE IF i[ax] < off + ext(q)
                                  THEN AtIdx(vals, shapes, nd.arrays[q],
                                             [i EXCEPT ![ax] = i[ax] - off])
                                  ELSE Find(q + 1, off + ext(q))
         IN Find(1, 0)
    [] k = "roll" ->
         LET ax == nd.axis + 1 n == nd.shape[ax] IN
         AtIdx(vals, shapes, nd.a, [i EXCEPT ![ax] = (i[ax] - nd.shift) % n])
    [] k = "perm" ->
         \* result axis q is operand axis perm[q]
         AtIdx(vals, shapes, nd.a,
               [j \in 1..Len(i) |-> i[CHOOSE q \in 1..Len(i) : nd.perm[q] + 1 = j]])
    [] k = "reshape" ->
         LET f == Flat(i, nd.shape, nd.order) IN
         AtIdx(vals, shapes, nd.a, Unflat(f, shapes[nd.a], nd.order))
    [] k = "index" ->
         AtIdx(vals, shapes, nd.a, IndexSource(nd.idx, shapes[nd.a], shapes, vals, i))
    [] k = "einsum" ->
         EinsumSum([args |-> nd.args, acc |-> nd.acc, nred |-> nd.nred,
                    rext |-> [d \in 1..nd.nred |->
                       EinsumRedExtent([acc |-> nd.acc,
                                        shp |-> [a \in 1..Len(nd.args) |-> shapes[nd.args[a]]]],
                                       d - 1)]],
                   vals, shapes, i, 1, <<>>)
    [] k = "csr" ->
         LET lo == AtIdx(vals, shapes, nd.rows, <<i[1]>>)
             hi == AtIdx(vals, shapes, nd.rows, <<i[1] + 1>>)
         IN IF lo >= OFF \/ hi >= OFF \/ lo < 0 THEN POISON
            ELSE Fold("add", [t \in 1..(IF hi > lo THEN hi - lo ELSE 0) |->
                   LET p == lo + t - 1
                       col == AtIdx(vals, shapes, nd.cols, <<p>>)
                   IN BinOp("mul", AtIdx(vals, shapes, nd.data, <<p>>),
                            IF col >= OFF THEN POISON
                            ELSE AtIdx(vals, shapes, nd.x, <<col>> \o Tail(i)))])
    \* ---- NumPy-level ("high-level op") kinds, used as the reference side
    [] k = "full"  -> OperandAt(nd.fill, vals, shapes, i)
    [] k = "binop" -> BinOp(nd.op, OperandAt(nd.x1, vals, shapes, i),
                            OperandAt(nd.x2, vals, shapes, i))
    [] k = "ucall" -> IF Len(nd.args) = 1
                      THEN Unary(nd.f, OperandAt(nd.args[1], vals, shapes, i))
                      ELSE LET a == OperandAt(nd.args[1], vals, shapes, i)
                               b == OperandAt(nd.args[2], vals, shapes, i)
                           IN IF a >= POISON \/ b >= POISON THEN POISON
                              ELSE D(UF2(nd.f, ToD(a), ToD(b)))
    [] k = "where" -> LET c == OperandAt(nd.c, vals, shapes, i) IN
                      IF c >= POISON THEN POISON
                      ELSE IF Truth(c) THEN OperandAt(nd.t, vals, shapes, i)
                      ELSE OperandAt(nd.e, vals, shapes, i)
    [] k = "bcast" -> OperandAt(nd.x, vals, shapes, i)
    [] k = "lnot"  -> LNot(OperandAt(nd.x, vals, shapes, i))
    [] k = "reduce" ->
         \* nd.axes: the reduced axes of the operand (0-based, ascending)
         LET s    == shapes[nd.x]
             rax  == nd.axes
             rsh  == [q \in 1..Len(rax) |-> s[rax[q] + 1]]
             n    == SizeOf(rsh)
             src(t) == LET r == UnflatC(t - 1, rsh) IN
                       [j \in 1..Len(s) |->
                          IF \E q \in 1..Len(rax) : rax[q] + 1 = j
                          THEN r[CHOOSE q \in 1..Len(rax) : rax[q] + 1 = j]
                          ELSE i[Cardinality({q \in 1..j : ~\E z \in 1..Len(rax) : rax[z] + 1 = q})]]
         IN Fold(RedOpOf(nd.op), [t \in 1..n |-> AtIdx(vals, shapes, nd.x, src(t))])

\* A result of a call to a loopy kernel is an UNINTERPRETED function of the
\* kernel (nd.knl), the result (nd.res) and ALL elements of all bound arguments
\* (arrays by position, scalars as constants): a sequential hash.
RECURSIVE LpHash(_, _, _, _)
LpHash(seqs, q, e, acc) ==
  IF q > Len(seqs) THEN acc
  ELSE IF e > Len(seqs[q]) THEN LpHash(seqs, q + 1, 1, UF(77 + q, acc))
  ELSE LpHash(seqs, q, e + 1, UF2(500 + q, acc, ToD(seqs[q][e])))

LpResVal(nd, vals, n) ==
  LET seqs == [q \in 1..Len(nd.args) |->
                 IF "n" \in DOMAIN nd.args[q] THEN vals[nd.args[q].n]
                 ELSE <<Ev(nd.args[q].c, <<>>, <<>>,
                          [bind |-> <<>>, vals |-> <<>>, shapes |-> <<>>, nocast |-> TRUE])>>]
      bad == \E q \in DOMAIN seqs : \E e \in DOMAIN seqs[q] : seqs[q][e] >= POISON
      h == LpHash(seqs, 1, 1, (nd.knl + 13 * nd.res) % P)
  IN [f \in 1..n |-> IF bad THEN POISON ELSE D(UF2(640 + nd.res, h, f))]

NodeVal(g, nd, vals, shapes, inp, nocast) ==
  LET k == nd.kind n == SizeOf(nd.shape) IN
  IF k = "in" THEN inp[nd.name]
  ELSE IF k = "lpres" THEN LpResVal(nd, vals, n)
  ELSE IF k = "ncr" THEN
     \* result nd.name of calling function nd.fn with bindings nd.bind (param -> pos)
     LET body == g.funcs[nd.fn]
         binp == [p \in DOMAIN nd.bind |-> vals[nd.bind[p]]] @@ inp
         bv   == Val(body, binp, nocast)
         o    == CHOOSE q \in DOMAIN body.outs : body.outs[q].name = nd.name
     IN bv[body.outs[o].node]
  ELSE [f \in 1..n |-> NodeElem(g, nd, vals, shapes, inp, nocast, UnflatC(f - 1, nd.shape))]

RECURSIVE ValUpTo(_, _, _, _)
ValUpTo(g, inp, nocast, k) ==
  IF k = 0 THEN <<>>
  ELSE LET prev   == ValUpTo(g, inp, nocast, k - 1)
           shapes == [j \in 1..Len(g.nodes) |-> g.nodes[j].shape]
       IN Append(prev, TLCEval(NodeVal(g, g.nodes[k], prev, shapes, inp, nocast)))

Val(g, inp, nocast) == ValUpTo(g, inp, nocast, Len(g.nodes))

(***************************************************************************)
(* Shape rules (spec-side inference, compared with the declared shapes).   *)
(***************************************************************************)
SpecShape(nd, shapes) ==
  LET k == nd.kind IN
  CASE k = "stack" -> InsertAt(shapes[nd.arrays[1]], nd.axis + 1, Len(nd.arrays))
    [] k = "concat" ->
         [shapes[nd.arrays[1]] EXCEPT ![nd.axis + 1] =
            SumSeq([q \in 1..Len(nd.arrays) |-> shapes[nd.arrays[q]][nd.axis + 1]])]
    [] k = "roll" -> shapes[nd.a]
    [] k = "perm" -> [q \in 1..Len(nd.perm) |-> shapes[nd.a][nd.perm[q] + 1]]
    [] k = "index" -> IndexResultShape(nd.idx, shapes[nd.a], shapes)
    [] k = "csr" -> <<shapes[nd.rows][1] - 1>> \o Tail(shapes[nd.x])
    [] k = "alias" -> shapes[nd.a]
    [] k = "reduce" -> LET s == shapes[nd.x] IN
         [q \in 1..(Len(s) - Len(nd.axes)) |->
            s[CHOOSE j \in 1..Len(s) :
                /\ ~\E z \in 1..Len(nd.axes) : nd.axes[z] + 1 = j
                /\ Cardinality({w \in 1..j : ~\E z \in 1..Len(nd.axes) : nd.axes[z] + 1 = w}) = q]]
    \* NumPy-level kinds: the result shape is the broadcast of the operand shapes
    [] k \in {"binop", "where", "ucall", "lnot"} ->
         LET ops == CASE k = "binop" -> <<nd.x1, nd.x2>>
                      [] k = "where" -> <<nd.c, nd.t, nd.e>>
                      [] k = "ucall" -> nd.args
                      [] k = "lnot"  -> <<nd.x>>
             shs == [q \in 1..Len(ops) |->
                       IF "n" \in DOMAIN ops[q] THEN shapes[ops[q].n] ELSE <<>>]
         IN IF BroadcastableAll(shs) THEN BShapeAll(shs) ELSE <<-1>>
    [] k = "bcast" ->
         LET s == shapes[nd.x.n] IN
         IF Len(s) <= Len(nd.shape) /\ Broadcastable2(s, nd.shape)
            /\ BShape2(s, nd.shape) = nd.shape
         THEN nd.shape ELSE <<-1>>
    [] OTHER -> nd.shape

ShapesOK(g) ==
  LET shapes == [j \in 1..Len(g.nodes) |-> g.nodes[j].shape] IN
  \A j \in 1..Len(g.nodes) :
     /\ SpecShape(g.nodes[j], shapes) = g.nodes[j].shape
     /\ g.nodes[j].kind = "reshape" =>
           SizeOf(g.nodes[j].shape) = SizeOf(shapes[g.nodes[j].a])

NoPoison(arr) == \A j \in DOMAIN arr : arr[j] < POISON
=============================================================================
