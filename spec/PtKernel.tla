------------------------------ MODULE PtKernel ------------------------------
(***************************************************************************)
(* The generated kernel as a state machine (use M of DESIGN 2.1).          *)
(* Constants come from REAL kernels produced by generate_loopy: a batch of *)
(* kernel records, each with instructions [n, deps, writes, reads], its    *)
(* temporaries and outputs.  A behaviour executes the instructions of one  *)
(* kernel in ANY order the depends_on edges allow -- loopy's scheduler     *)
(* picks one such order, which one is not pytato's business.               *)
(*                                                                         *)
(* Safety, in every reachable state (i.e. under every admissible order):   *)
(*   NoReadBeforeWrite  an instruction about to run reads no temporary /   *)
(*                      output that one of its writers has not written yet *)
(*   NoLostWrite        two writers of one variable are never both enabled *)
(*                      (their order is fixed by dependencies)             *)
(*   NoDangling         no dependency on an instruction that does not exist*)
(* and, when no instruction is left, OutputsWritten: every non-empty       *)
(* output has been written.                                                *)
(***************************************************************************)
EXTENDS Integers, Sequences, FiniteSets, TLC, Json, IOUtils

Batch == JsonDeserialize(IOEnv.BATCH_FILE)

VARIABLES k, done
vars == <<k, done>>

Insns(kk) == Batch[kk].insns
N(kk) == Len(Insns(kk))
SeqSet(s) == {s[i] : i \in DOMAIN s}

Deps(kk, i) == SeqSet(Insns(kk)[i].deps)
Writes(kk, i) == SeqSet(Insns(kk)[i].writes)
Reads(kk, i) == SeqSet(Insns(kk)[i].reads)
Writers(kk, v) == {i \in 1..N(kk) : v \in Writes(kk, i)}

Enabled(kk, d, i) == i \notin d /\ Deps(kk, i) \subseteq d

Init == k \in 1..Len(Batch) /\ done = {}
Exec(i) == /\ Enabled(k, done, i)
           /\ done' = done \cup {i}
           /\ UNCHANGED k
Next == \E i \in 1..N(k) : Exec(i)

NoReadBeforeWrite ==
  \A i \in 1..N(k) : Enabled(k, done, i) =>
     \A v \in Reads(k, i) : (Writers(k, v) \ {i}) \subseteq done

NoLostWrite ==
  \A i, j \in 1..N(k) :
     (i # j /\ Enabled(k, done, i) /\ Enabled(k, done, j)) =>
        Writes(k, i) \cap Writes(k, j) = {}

NoDangling == Len(Batch[k].dangling) = 0

OutputsWritten ==
  (\A i \in 1..N(k) : i \in done) =>
     \A q \in DOMAIN Batch[k].nonempty_outputs :
        Writers(k, Batch[k].nonempty_outputs[q]) # {}

\* every read temporary has a writer at all
ReadsHaveWriters ==
  \A i \in 1..N(k) : \A v \in Reads(k, i) :
     v \in SeqSet(Batch[k].temps) => Writers(k, v) # {}

\* one verdict line per kernel and violated invariant (printed when violated)
Report(name, ok) == ok \/ PrintT(<<"K", Batch[k].id, name>>)
InvNoReadBeforeWrite == Report("NoReadBeforeWrite", NoReadBeforeWrite)
InvNoLostWrite == Report("NoLostWrite", NoLostWrite)
InvNoDangling == Report("NoDangling", NoDangling)
InvOutputsWritten == Report("OutputsWritten", OutputsWritten)
InvReadsHaveWriters == Report("ReadsHaveWriters", ReadsHaveWriters)
=============================================================================
