CONSTANTS
  Pool = {"x", "out", "x_0", "x_dim0", "_pt_data", "_pt_data_0", "_pt_temp", "_pt_in"}
  Reserved = {"_pt_data", "_pt_data_0", "_pt_temp", "_pt_in"}
INIT Init
NEXT Next
CONSTRAINT Constraint
CHECK_DEADLOCK FALSE
