CONSTANTS
  MaxLen = 2
  MaxDim = 2
  KindsB = {"binop", "where", "reduce", "einsum", "adv"}
  Rich = TRUE
INIT Init2
NEXT Next
INVARIANT LowerCorrect2
CHECK_DEADLOCK FALSE
