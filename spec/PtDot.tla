-------------------------------- MODULE PtDot --------------------------------
(***************************************************************************)
(* Renderings of expression graphs are faithful pictures (X02).            *)
(*                                                                         *)
(* Part 1  the SOURCE S: what the user hands to the renderer, as data.     *)
(*           S.nodes    sequence of nodes, hash-consed per name space      *)
(*                      (ns = 0: the graph of the outputs; ns = f: the     *)
(*                      body of function f).  kind "ph" (placeholder),     *)
(*                      "in" (other input), "call", "op"; title (type      *)
(*                      name), must / may (label fields a picture MUST /   *)
(*                      MAY show, as shown texts), name (inputs), fn (call *)
(*                      nodes: the function), kids: the dependency edges   *)
(*                      [to, lab, ek] with the label the drawing           *)
(*                      convention gives them and their edge kind.  The    *)
(*                      positions are a topological order of the PICTURE:  *)
(*                      children first, and the node that computes a part  *)
(*                      output before the placeholder that names it.       *)
(*           S.funcs    label (the identifier, "func" when there is none), *)
(*                      rets: the named return values                      *)
(*           S.parts    label, trivial (the one part of an unpartitioned   *)
(*                      graph: no cluster), outs (names), user (names of   *)
(*                      user inputs), recvs / sends (name, label fields    *)
(*                      [, data node])                                     *)
(*           S.outputs  name -> node (name_to_output), S.overall (names)   *)
(* Part 2  Picture(S, mode): the picture S is owed -- a sequence of ITEMS  *)
(*         (one per node instance: per part, per function body per part;   *)
(*         placeholders of the main graph once for all parts; receive /    *)
(*         send nodes; function entry nodes; one name node per part        *)
(*         output, overall output and function return value), each with    *)
(*         its cluster path, label and incoming labelled edges.  mode is   *)
(*         the set of MAY edge kinds that are drawn: dependencies through  *)
(*         array-valued shapes / slice bounds may be drawn or left to the  *)
(*         shape text (all of a kind or none).                             *)
(* Part 3  the faithfulness relation between a picture and an abstract     *)
(*         RENDERING R (nodes with home cluster path, title, fields and    *)
(*         incoming labelled edges), decided through structural classes:   *)
(*         class = label + cluster + bag of (edge label, style, class of   *)
(*         the source) -- hash-consing done by TLC over the combined       *)
(*         sequence picture ++ rendering.  R is faithful iff the bag of    *)
(*         classes of the items equals the bag of classes of the rendered  *)
(*         nodes (FaithfulByClasses).  FaithfulExplicit states the same    *)
(*         as "there is a bijection that preserves labels, clusters and    *)
(*         the bag of labelled edges"; PtDotMC checks on all small         *)
(*         instances that the two agree.  Clause(S, R) names the first     *)
(*         failing level for a diagnosis.                                  *)
(* Two-sided: MAY fields may be shown or not (if shown, correctly); the    *)
(* value of AnyKeys is not judged here; main-graph placeholders may sit in *)
(* any cluster; the edge to an overall-output name may start at any        *)
(* instance of the array; MAY edge kinds (mode).                           *)
(***************************************************************************)
EXTENDS Integers, Sequences, FiniteSets, TLC
SeqX == INSTANCE SequencesExt

Range(s) == {s[i] : i \in DOMAIN s}
Merge(a, b) == [x \in DOMAIN a \cup DOMAIN b |-> IF x \in DOMAIN b THEN b[x] ELSE a[x]]
Restrict(r, K) == [x \in DOMAIN r \cap K |-> r[x]]

\* (folds over long sequences use SequencesExt!FoldLeft, which TLC evaluates
\* with a Java loop: a recursive operator deepens the Java stack with every
\* entry, and a ladder's sequence has hundreds of entries)
RECURSIVE Asc(_)
Asc(X) == IF X = {} THEN <<>>
          ELSE LET m == CHOOSE x \in X : \A y \in X : x <= y IN <<m>> \o Asc(X \ {m})
Flat(F0, n) ==                          \* F[1] \o ... \o F[n]
  LET F == TLCEval(F0) IN
  SeqX!FoldLeft(LAMBDA acc, i : acc \o F[i], <<>>, [i \in 1..n |-> i])
SumTo(f0, k) ==
  LET f == TLCEval(f0) IN
  SeqX!FoldLeft(LAMBDA acc, i : acc + f[i], 0, [i \in 1..k |-> i])
BagOfSeq(s) == [x \in Range(s) |-> Cardinality({i \in DOMAIN s : s[i] = x})]
Count(b, x) == IF x \in DOMAIN b THEN b[x] ELSE 0

MayKinds == {"shape", "newshape", "slicebound"}
AnyKeys == {"addr", "data"}
Modes == <<{}, {"shape"}, MayKinds>>
NoFields == [u \in {"_"} |-> ""]

(***************************************************************************)
(* Part 2: the picture                                                     *)
(***************************************************************************)
DrawnKids(S, k, mode) ==
  SelectSeq(S.nodes[k].kids, LAMBDA e : e.ek \notin MayKinds \/ e.ek \in mode)

RECURSIVE Grow(_, _, _)
Grow(S, mode, X) ==
  LET Y == X \cup UNION {{e.to : e \in Range(DrawnKids(S, k, mode))} : k \in X}
  IN IF Y = X THEN X ELSE Grow(S, mode, Y)

OutNode(S, nm) == (CHOOSE o \in Range(S.outputs) : o.name = nm).node
IsMainPh(S, k) == S.nodes[k].ns = 0 /\ S.nodes[k].kind = "ph"
CallsIn(S, X) == {S.nodes[k].fn : k \in {j \in X : S.nodes[j].kind = "call"}}

RECURSIVE FuncClosure(_, _, _)
FuncClosure(S, body, F) ==
  LET G == F \cup UNION {CallsIn(S, body[f]) : f \in F}
  IN IF G = F THEN F ELSE FuncClosure(S, body, G)

Item(cl, title, must, may, plain, node, kids) ==
  [cl |-> cl, title |-> title, must |-> must, may |-> may, plain |-> plain,
   node |-> node, kids |-> kids]
Edge(to, lab, style, anyinst) == [to |-> to, lab |-> lab, style |-> style, anyinst |-> anyinst]

Picture(S, mode) ==
  LET N == Len(S.nodes)
      NP == Len(S.parts)
      NF == Len(S.funcs)
      reach0 == TLCEval([p \in 1..NP |->
                  Grow(S, mode, {OutNode(S, nm) : nm \in Range(S.parts[p].outs)})])
      body == TLCEval([f \in 1..NF |->
                  Grow(S, mode, {S.funcs[f].rets[i].node : i \in DOMAIN S.funcs[f].rets})])
      pf == TLCEval([p \in 1..NP |-> FuncClosure(S, body, CallsIn(S, reach0[p]))])
      pfs == TLCEval([p \in 1..NP |-> Asc(pf[p])])
      pcl(p) == IF S.parts[p].trivial THEN <<>> ELSE <<S.parts[p].label>>
      fcl(p, f) == pcl(p) \o <<S.funcs[f].label>>
      \* -- positions
      nrecv == [p \in 1..NP |-> Len(S.parts[p].recvs)]
      RecvPos(p, i) == SumTo(nrecv, p - 1) + i
      NRecv == SumTo(nrecv, NP)
      nfe == [p \in 1..NP |-> Cardinality(pf[p])]
      FePos(p, f) == NRecv + SumTo(nfe, p - 1) + Cardinality({g \in pf[p] : g <= f})
      NFe == SumTo(nfe, NP)
      where == TLCEval([k \in 1..N |->
                 IF IsMainPh(S, k) THEN (IF \E p \in 1..NP : k \in reach0[p] THEN {0} ELSE {})
                 ELSE IF S.nodes[k].ns = 0 THEN {p \in 1..NP : k \in reach0[p]}
                 ELSE {p \in 1..NP : S.nodes[k].ns \in pf[p] /\ k \in body[S.nodes[k].ns]}])
      cnt == [k \in 1..N |-> Cardinality(where[k])]
      off == TLCEval([k \in 1..N |-> NRecv + NFe + SumTo(cnt, k - 1)])
      InstPos(p, k) == IF IsMainPh(S, k) THEN off[k] + 1
                       ELSE off[k] + Cardinality({q \in where[k] : q <= p})
      \* -- who receives / produces a name
      recvOf(nm) == LET ps == {p \in 1..NP : \E i \in DOMAIN S.parts[p].recvs :
                                                S.parts[p].recvs[i].name = nm}
                    IN IF ps = {} THEN 0
                       ELSE LET p == CHOOSE q \in ps : \A z \in ps : q <= z
                                i == CHOOSE j \in DOMAIN S.parts[p].recvs :
                                       /\ S.parts[p].recvs[j].name = nm
                                       /\ \A z \in DOMAIN S.parts[p].recvs :
                                            S.parts[p].recvs[z].name = nm => j <= z
                            IN RecvPos(p, i)
      users == UNION {Range(S.parts[p].user) : p \in 1..NP}
      producer(nm) == LET ps == {p \in 1..NP : nm \in Range(S.parts[p].outs)}
                      IN IF ps = {} THEN 0 ELSE CHOOSE q \in ps : \A z \in ps : q <= z
      \* -- the groups of items
      recvItems == Flat([p \in 1..NP |->
                     [i \in DOMAIN S.parts[p].recvs |->
                        Item(pcl(p), "DistributedRecv", S.parts[p].recvs[i].must, NoFields,
                             FALSE, 0, <<>>)]], NP)
      feItems == Flat([p \in 1..NP |->
                   [j \in DOMAIN pfs[p] |->
                      Item(fcl(p, pfs[p][j]), S.funcs[pfs[p][j]].label, NoFields, NoFields,
                           TRUE, 0, <<>>)]], NP)
      phKids(k) ==
        LET nm == S.nodes[k].name IN
        IF recvOf(nm) # 0 THEN <<Edge(recvOf(nm), "", "dotted", FALSE)>>
        ELSE IF nm \in users THEN <<>>             \* a user input: no arrow
        ELSE IF producer(nm) # 0
             THEN <<Edge(InstPos(producer(nm), OutNode(S, nm)), "", "dashed", FALSE)>>
             ELSE <<>>
      nodeKids(p, k) ==
        LET dk == DrawnKids(S, k, mode) IN
        [q \in DOMAIN dk |-> Edge(InstPos(p, dk[q].to), dk[q].lab, "", FALSE)]
        \o (IF S.nodes[k].kind = "call"
            THEN <<Edge(FePos(p, S.nodes[k].fn), "", "", FALSE)>> ELSE <<>>)
      nodeCl(p, k) ==
        IF S.nodes[k].ns = 0 THEN pcl(p)
        ELSE fcl(p, S.nodes[k].ns)
             \o (IF S.nodes[k].kind \in {"ph", "in"} THEN <<"Arguments">> ELSE <<>>)
      nodeItems == Flat([k \in 1..N |->
                     IF IsMainPh(S, k)
                     THEN (IF where[k] = {} THEN <<>>
                           ELSE <<Item(<<"*">>, S.nodes[k].title, S.nodes[k].must,
                                       S.nodes[k].may, FALSE, k, phKids(k))>>)
                     ELSE LET ps == Asc(where[k]) IN
                          [j \in DOMAIN ps |->
                             Item(nodeCl(ps[j], k), S.nodes[k].title, S.nodes[k].must,
                                  S.nodes[k].may, FALSE, k, nodeKids(ps[j], k))]], N)
      sendItems == Flat([p \in 1..NP |->
                     [i \in DOMAIN S.parts[p].sends |->
                        Item(pcl(p), "DistributedSend", S.parts[p].sends[i].must, NoFields,
                             FALSE, 0,
                             <<Edge(InstPos(p, S.parts[p].sends[i].data),
                                    S.parts[p].sends[i].name, "dotted", FALSE)>>)]], NP)
      retItems == Flat([p \in 1..NP |->
                    Flat([j \in DOMAIN pfs[p] |->
                      LET f == pfs[p][j] IN
                      [i \in DOMAIN S.funcs[f].rets |->
                         Item(fcl(p, f) \o <<"Returns">>, S.funcs[f].rets[i].name, NoFields,
                              NoFields, TRUE, 0,
                              <<Edge(InstPos(p, S.funcs[f].rets[i].node), "", "", FALSE)>>)]],
                      Len(pfs[p]))], NP)
      poItems == Flat([p \in 1..NP |->
                   [i \in DOMAIN S.parts[p].outs |->
                      Item(pcl(p) \o <<"Part_outputs">>, S.parts[p].outs[i], NoFields, NoFields,
                           TRUE, 0,
                           <<Edge(InstPos(p, OutNode(S, S.parts[p].outs[i])), "", "", FALSE)>>)]],
                   NP)
      holder(k) == CHOOSE p \in 1..NP : k \in reach0[p] /\ \A q \in 1..NP : k \in reach0[q] => p <= q
      ooItems == [i \in DOMAIN S.overall |->
                    LET k == OutNode(S, S.overall[i]) IN
                    Item(<<"Overall_outputs">>, S.overall[i], NoFields, NoFields, TRUE, 0,
                         <<Edge(InstPos(holder(k), k), "", "", TRUE)>>)]
  IN recvItems \o feItems \o nodeItems \o sendItems \o retItems \o poItems \o ooItems

\* the source is well-formed as far as the picture needs it (else: unsupported)
SourceOK(S, mode) ==
  LET NP == Len(S.parts)
      names == {S.outputs[i].name : i \in DOMAIN S.outputs}
      reach0 == [p \in 1..NP |->
                  Grow(S, mode, {OutNode(S, nm) : nm \in Range(S.parts[p].outs) \cap names})]
  IN /\ \A p \in 1..NP : Range(S.parts[p].outs) \subseteq names
     /\ Range(S.overall) \subseteq names
     /\ \A i \in DOMAIN S.overall : \E p \in 1..NP : OutNode(S, S.overall[i]) \in reach0[p]
     /\ \A p \in 1..NP : \A i \in DOMAIN S.parts[p].sends :
           S.parts[p].sends[i].data \in reach0[p]
     /\ \A k \in DOMAIN S.nodes : \A q \in DOMAIN S.nodes[k].kids : S.nodes[k].kids[q].to < k

(***************************************************************************)
(* Part 3: the relation                                                    *)
(***************************************************************************)
\* rendered placeholders outside a function's argument cluster may sit anywhere
RCl(nd) == IF nd.title = "Placeholder" /\ ~nd.plain
              /\ (Len(nd.cl) = 0 \/ nd.cl[Len(nd.cl)] # "Arguments")
           THEN <<"*">> ELSE nd.cl
IsOverall(nd) == nd.cl = <<"Overall_outputs">>

ShownKeys(R) ==
  LET titles == {R.nodes[r].title : r \in DOMAIN R.nodes} IN
  [t \in titles |-> UNION {DOMAIN R.nodes[r].fields :
                             r \in {q \in DOMAIN R.nodes : R.nodes[q].title = t}}]
PLab(it, shown) ==
  LET sk == IF it.title \in DOMAIN shown THEN shown[it.title] ELSE {}
      keys == (DOMAIN it.must \cup (sk \cap DOMAIN it.may)) \ AnyKeys
  IN <<it.title, it.plain, Restrict(Merge(it.may, it.must), keys)>>
RLab(nd) == <<nd.title, nd.plain, Restrict(nd.fields, DOMAIN nd.fields \ AnyKeys)>>

\* combined entries: [lab, cl, oid, kids: seq of [lab, style, to, anyinst]]
Entries(P, R, shown) ==
  LET n == Len(P) IN
  [i \in 1..n |-> [lab |-> PLab(P[i], shown), cl |-> P[i].cl,
                   oid |-> IF P[i].plain THEN 0 ELSE P[i].node, kids |-> P[i].kids]]
  \o [r \in DOMAIN R.nodes |->
        [lab |-> RLab(R.nodes[r]), cl |-> RCl(R.nodes[r]), oid |-> R.nodes[r].oid,
         kids |-> [q \in DOMAIN R.nodes[r].kids |->
                     Edge(R.nodes[r].kids[q].to + n, R.nodes[r].kids[q].lab,
                          R.nodes[r].kids[q].style, IsOverall(R.nodes[r]))]]]

\* classes of the combined sequence: free = cluster erased everywhere below;
\* cls = with clusters (an "anyinst" edge looks at the free class of its source)
\* (withCl = FALSE: no entry has a cluster, cls = free, one scan per entry)
ClsStep(E, withOid, withCl, prev, k) ==
  LET e == E[k]
      oid == IF withOid THEN e.oid ELSE 0
      kb0 == BagOfSeq([q \in DOMAIN e.kids |->
                <<e.kids[q].lab, e.kids[q].style, prev.free[e.kids[q].to]>>])
      kb1 == BagOfSeq([q \in DOMAIN e.kids |->
                <<e.kids[q].lab, e.kids[q].style,
                  IF e.kids[q].anyinst THEN prev.free[e.kids[q].to]
                  ELSE prev.cls[e.kids[q].to]>>])
      sig0 == <<e.lab, oid, kb0>>
      sig1 == <<e.lab, e.cl, oid, kb1>>
      same0 == {j \in 1..(k - 1) : prev.s0[j] = sig0}
      same1 == {j \in 1..(k - 1) : prev.s1[j] = sig1}
      first(X) == IF X = {} THEN k ELSE CHOOSE j \in X : \A z \in X : j <= z
      f0 == first(same0)
  IN IF withCl
     THEN [free |-> Append(prev.free, f0), cls |-> Append(prev.cls, first(same1)),
           s0 |-> Append(prev.s0, sig0), s1 |-> Append(prev.s1, sig1)]
     ELSE [free |-> Append(prev.free, f0), cls |-> Append(prev.cls, f0),
           s0 |-> Append(prev.s0, sig0), s1 |-> prev.s1]
ClsUpToX(E0, withOid, withCl, k) ==
  LET E == TLCEval(E0)
      start == [free |-> <<>>, cls |-> <<>>, s0 |-> <<>>, s1 |-> <<>>]
  IN SeqX!FoldLeft(LAMBDA acc, i : TLCEval(ClsStep(E, withOid, withCl, acc, i)), start,
                   [i \in 1..k |-> i])
ClsUpTo(E0, withOid, k) == ClsUpToX(E0, withOid, TRUE, k)

ClassBagsEqual(E, n, withOid) ==
  LET c == ClsUpTo(E, withOid, Len(E)).cls
  IN BagOfSeq(SubSeq(c, 1, n)) = BagOfSeq(SubSeq(c, n + 1, Len(E)))

Acyclic(R) == \A r \in DOMAIN R.nodes : \A q \in DOMAIN R.nodes[r].kids : R.nodes[r].kids[q].to < r

FaithfulByClasses(P, R) ==
  /\ Acyclic(R)
  /\ ClassBagsEqual(Entries(P, R, ShownKeys(R)), Len(P), FALSE)

\* the same relation, said directly: a bijection f from the rendered nodes
\* to the items that preserves label and cluster and turns the rendered edges
\* into the expected ones, as bags.  (Candidates are chosen per rendered node
\* among the items with its label and cluster: TLC enumerates the product.)
RECURSIVE Choices(_, _)
Choices(cand, k) ==       \* all sequences f of length k with f[r] \in cand[r], injective
  IF k = 0 THEN {<<>>}
  ELSE UNION {{Append(f, x) : x \in cand[k] \ Range(f)} : f \in Choices(cand, k - 1)}
EdgeMatches(P, R, shown, f, r, q, j) ==     \* rendered edge q of node r is item edge j of f[r]
  LET re == R.nodes[r].kids[q]  pe == P[f[r]].kids[j] IN
  /\ re.lab = pe.lab /\ re.style = pe.style
  /\ IF pe.anyinst
     THEN PLab(P[f[re.to]], shown) = PLab(P[pe.to], shown) /\ P[f[re.to]].node = P[pe.to].node
     ELSE f[re.to] = pe.to
FaithfulExplicit(P, R) ==
  LET shown == ShownKeys(R)
      n == Len(P)
      m == Len(R.nodes)
      cand == [r \in 1..m |-> {i \in 1..n : /\ PLab(P[i], shown) = RLab(R.nodes[r])
                                            /\ P[i].cl = RCl(R.nodes[r])}]
  IN /\ Acyclic(R)
     /\ n = m
     /\ \E f \in Choices(cand, m) :
          \A r \in 1..m :
            /\ Len(R.nodes[r].kids) = Len(P[f[r]].kids)
            \* a bijection between the two edge sequences that matches every edge
            /\ \E g \in Choices([q \in DOMAIN R.nodes[r].kids |-> DOMAIN P[f[r]].kids],
                                Len(R.nodes[r].kids)) :
                 \A q \in DOMAIN R.nodes[r].kids : EdgeMatches(P, R, shown, f, r, q, g[q])

(***************************************************************************)
(* Diagnosis: the first failing level                                      *)
(***************************************************************************)
ClauseForP(P, R) ==
  LET n == Len(P)
      rn == R.nodes
      shown == TLCEval(ShownKeys(R))
      pl == TLCEval([i \in 1..n |-> PLab(P[i], shown)])
      rl == TLCEval([r \in DOMAIN rn |-> RLab(rn[r])])
      rcl == TLCEval([r \in DOMAIN rn |-> RCl(rn[r])])
      pt == BagOfSeq([i \in 1..n |-> P[i].title])
      rt == BagOfSeq([r \in DOMAIN rn |-> rn[r].title])
      titles == DOMAIN pt \cup DOMAIN rt
      pc == BagOfSeq([i \in 1..n |-> <<P[i].cl, P[i].title>>])
      rc == BagOfSeq([r \in DOMAIN rn |-> <<rcl[r], rn[r].title>>])
      plb == BagOfSeq([i \in 1..n |-> <<P[i].cl, pl[i]>>])
      rlb == BagOfSeq([r \in DOMAIN rn |-> <<rcl[r], rl[r]>>])
      pes == Flat([i \in 1..n |->
               [q \in DOMAIN P[i].kids |->
                  <<IF P[i].kids[q].anyinst THEN <<"?">> ELSE P[P[i].kids[q].to].cl,
                    pl[P[i].kids[q].to], P[i].cl, pl[i], P[i].kids[q].lab,
                    P[i].kids[q].style>>]], n)
      res == Flat([r \in DOMAIN rn |->
               [q \in DOMAIN rn[r].kids |->
                  <<IF IsOverall(rn[r]) THEN <<"?">> ELSE rcl[rn[r].kids[q].to],
                    rl[rn[r].kids[q].to], rcl[r], rl[r], rn[r].kids[q].lab,
                    rn[r].kids[q].style>>]], Len(rn))
      pe == BagOfSeq(pes)
      re == BagOfSeq(res)
      ends(s) == BagOfSeq([q \in DOMAIN s |-> <<s[q][1], s[q][2], s[q][3], s[q][4]>>])
      E == Entries(P, R, shown)
      \* identity: only where the rendering shows an address
      addrTitles == {rn[r].title : r \in {q \in DOMAIN rn : rn[q].oid # 0}}
      E2 == [k \in DOMAIN E |->
               IF k <= n
               THEN (IF P[k].title \in addrTitles /\ ~P[k].plain THEN E[k]
                     ELSE [E[k] EXCEPT !.oid = 0])
               ELSE E[k]]
  IN
  IF ~Acyclic(R) THEN "cyclic"
  ELSE IF \E t \in titles : Count(rt, t) < Count(pt, t) THEN "node_missing"
  ELSE IF \E t \in titles : Count(rt, t) > Count(pt, t) THEN "node_extra"
  ELSE IF pc # rc THEN "cluster"
  ELSE IF plb # rlb THEN "label"
  ELSE IF pe # re THEN
         (IF ends(pes) = ends(res) THEN "edge_label"
          ELSE IF \E x \in DOMAIN pe : Count(re, x) < pe[x] THEN "edge_missing"
          ELSE IF \E x \in DOMAIN re : Count(pe, x) > 0 /\ re[x] > Count(pe, x)
               THEN "edge_duplicated"
          ELSE "edge_extra")
  ELSE IF ~ClassBagsEqual(E, n, FALSE) THEN "structure"
  ELSE IF addrTitles # {} /\ ~ClassBagsEqual(E2, n, TRUE) THEN "identity"
  ELSE IF \E r \in DOMAIN rn : rn[r].nstmt > 1 /\ ~(rn[r].title = "Placeholder" /\ ~rn[r].plain)
       THEN "node_declared_twice"
  ELSE IF \E r \in DOMAIN rn : rn[r].nstmt = 0 THEN "node_undeclared"
  ELSE "ok"

ClauseFor(S, R, mode) == ClauseForP(Picture(S, mode), R)

\* some mode fits; else the clause of the first mode (nothing MAY is drawn)
RECURSIVE FirstOK(_, _, _)
FirstOK(S, R, k) ==
  IF k > Len(Modes) THEN "none"
  ELSE IF ~SourceOK(S, Modes[k]) THEN "unsupported_source"
  ELSE LET c == ClauseFor(S, R, Modes[k]) IN IF c = "ok" THEN "ok" ELSE FirstOK(S, R, k + 1)
Clause(S, R) ==
  IF R.error # "" THEN R.error
  ELSE LET c == FirstOK(S, R, 1) IN
       IF c = "none" THEN ClauseFor(S, R, Modes[1]) ELSE c
=============================================================================
