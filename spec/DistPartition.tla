---------------------------- MODULE DistPartition ----------------------------
(***************************************************************************)
(* The DistributedGraphPart / DistributedGraphPartition contract           *)
(* (pytato/distributed/partition.py, class docstrings and the docstring of *)
(* find_distributed_partition) as predicates over the partitions of ALL    *)
(* ranks of one program at once.  Use E of DESIGN 2.1: every record of the *)
(* batch was exported from the real find_distributed_partition ->          *)
(* verify_distributed_partition -> number_distributed_tags (export_instance*)
(* in ptverif/distharness.py); TLC evaluates the predicates and prints one *)
(* verdict line per record,  <<"V", id, "ok">>  or                         *)
(* <<"V", id, "bad", <<failing clauses>>>>.                                *)
(*                                                                         *)
(* Record: n, ranks[r] = [parts, userin, overall, known, undefined,        *)
(* next_tag, outnames], parts[p] = [pid, needed, user_in, part_in, ins,    *)
(* outs, recvs[[name,src,tag,sym]], sends[[name,dst,tag,sym,reads,ncomm,   *)
(* same]], exprs[name -> [reads, ncomm]]]; ends = the send / receive ends  *)
(* found in the ORIGINAL per-rank DAGs by a reflective walk; verify[r] =   *)
(* what verify_distributed_partition did on rank r.  Ranks and part ids    *)
(* are 0-based in the data, 1-based as sequence positions here.            *)
(***************************************************************************)
EXTENDS Naturals, Sequences, FiniteSets, TLC, Json, IOUtils

Batch == JsonDeserialize(IOEnv.BATCH_FILE)

VARIABLE rec
Init == rec \in 1..Len(Batch)
Next == UNCHANGED rec

Rng(s) == {s[k] : k \in DOMAIN s}
Has(x, f) == f \in DOMAIN x
RECURSIVE Cat(_, _)
Cat(ss, k) == IF k > Len(ss) THEN <<>> ELSE ss[k] \o Cat(ss, k + 1)
Injective(s) == Cardinality(Rng(s)) = Len(s)

(* ------------------------------ one rank ------------------------------ *)
Pids(R) == 1..Len(R.parts)
NeededOf(R, p) == {q + 1 : q \in Rng(R.parts[p].needed)}
\* strict ancestors of p in the needed_pids relation (least fixpoint)
RECURSIVE Anc(_, _, _)
Anc(R, S, k) == LET S2 == S \cup UNION {NeededOf(R, q) \cap Pids(R) : q \in S}
                IN IF k = 0 \/ S2 = S THEN S ELSE Anc(R, S2, k - 1)
Before(R, p) == Anc(R, NeededOf(R, p) \cap Pids(R), Len(R.parts))
RecvNamesOf(R, p) == {R.parts[p].recvs[k].name : k \in DOMAIN R.parts[p].recvs}
SentNamesOf(R, p) == {R.parts[p].sends[k].name : k \in DOMAIN R.parts[p].sends}
OutsOf(R, p) == Rng(R.parts[p].outs)
InsOf(R, p) == Rng(R.parts[p].ins)
AllRecvNames(R) == UNION {RecvNamesOf(R, p) : p \in Pids(R)}
AllOuts(R) == UNION {OutsOf(R, p) : p \in Pids(R)}
ReadsOf(R, p) == UNION {Rng(R.parts[p].exprs[nm].reads) : nm \in DOMAIN R.parts[p].exprs}

PidsOK(R) == /\ Len(R.parts) >= 1
             /\ \A p \in Pids(R) : R.parts[p].pid = p - 1
             /\ \A p \in Pids(R) : NeededOf(R, p) \subseteq Pids(R)

\* the part order is acyclic
Acyclic(R) == \A p \in Pids(R) : p \notin Before(R, p)

\* each overall output, each sent array (and each stored expression) is
\* produced by exactly one part
ProducedOnce(R) ==
  /\ \A nm \in Rng(R.overall) \cup UNION {SentNamesOf(R, p) : p \in Pids(R)} \cup Rng(R.known) :
        Cardinality({p \in Pids(R) : nm \in OutsOf(R, p)}) = 1
  /\ AllOuts(R) = Rng(R.known)
  /\ \A p \in Pids(R) : DOMAIN R.parts[p].exprs = OutsOf(R, p) /\ Injective(R.parts[p].outs)

\* the overall outputs are the outputs the program asked for, in its order
OverallOK(R) == R.overall = R.outnames

\* every name a part reads is a user input, received by that or an earlier
\* part, or an output of an earlier part
ReadsDefined(R) ==
  \A p \in Pids(R) : \A nm \in InsOf(R, p) \cup ReadsOf(R, p) :
     \/ nm \in Rng(R.userin)
     \/ \E q \in Before(R, p) \cup {p} : nm \in RecvNamesOf(R, q)
     \/ \E q \in Before(R, p) : nm \in OutsOf(R, q)

\* the declared input names are exactly the names the part's expressions read
DeclaredReads(R) ==
  \A p \in Pids(R) :
     /\ InsOf(R, p) = Rng(R.parts[p].user_in) \cup Rng(R.parts[p].part_in)
     /\ ReadsOf(R, p) = InsOf(R, p)
     /\ Rng(R.parts[p].user_in) \subseteq Rng(R.userin)
     /\ \A k \in DOMAIN R.parts[p].sends : Rng(R.parts[p].sends[k].reads) \subseteq InsOf(R, p)

\* received names are never part outputs; each is received by one part
RecvNotOutput(R) == AllRecvNames(R) \cap AllOuts(R) = {}
RecvOnce(R) == \A nm \in AllRecvNames(R) :
                  Cardinality({p \in Pids(R) : nm \in RecvNamesOf(R, p)}) = 1
\* sent names always are part outputs, and the send node sends the array of that name
SentAreOutputs(R) == \A p \in Pids(R) : SentNamesOf(R, p) \subseteq OutsOf(R, p)
SendIsNamedArray(R) ==
  \A p \in Pids(R) : \A k \in DOMAIN R.parts[p].sends : R.parts[p].sends[k].same
\* no communication nodes inside part expressions
NoCommInside(R) ==
  \A p \in Pids(R) :
     /\ \A nm \in DOMAIN R.parts[p].exprs : R.parts[p].exprs[nm].ncomm = 0
     /\ \A k \in DOMAIN R.parts[p].sends : R.parts[p].sends[k].ncomm = 0
\* every stored expression can be evaluated from names defined before it
Defined(R) == R.undefined = <<>>

(* ------------------------------ all ranks ------------------------------ *)
Ranks(I) == 1..I.n
\* flat lists of send / receive ends: [rank (0-based), part (1-based), e]
SendEndsOfRank(I, r) ==
  Cat([p \in Pids(I.ranks[r]) |->
         [k \in DOMAIN I.ranks[r].parts[p].sends |->
            [rank |-> r - 1, part |-> p, e |-> I.ranks[r].parts[p].sends[k]]]], 1)
RecvEndsOfRank(I, r) ==
  Cat([p \in Pids(I.ranks[r]) |->
         [k \in DOMAIN I.ranks[r].parts[p].recvs |->
            [rank |-> r - 1, part |-> p, e |-> I.ranks[r].parts[p].recvs[k]]]], 1)
SendEnds(I) == Cat([r \in Ranks(I) |-> SendEndsOfRank(I, r)], 1)
RecvEnds(I) == Cat([r \in Ranks(I) |-> RecvEndsOfRank(I, r)], 1)
\* message identity <<src, dst, symbolic tag>>
SId(s) == <<s.rank, s.e.dst, s.e.sym>>
RId(v) == <<v.e.src, v.rank, v.e.sym>>

\* (S, V: SendEnds(I), RecvEnds(I), computed once per record by Clauses)

\* the partition contains every communication end of the program exactly
\* once (the ends found in the original DAGs by the reflective walk)
Complete(I, S, V) ==
  /\ Len(S) = Len(I.ends.sends) /\ Len(V) = Len(I.ends.recvs)
  /\ \A m \in {SId(S[k]) : k \in DOMAIN S} \cup
              {<<I.ends.sends[k].rank, I.ends.sends[k].dst, I.ends.sends[k].sym>> :
                 k \in DOMAIN I.ends.sends} :
       Cardinality({k \in DOMAIN S : SId(S[k]) = m}) =
       Cardinality({k \in DOMAIN I.ends.sends :
          <<I.ends.sends[k].rank, I.ends.sends[k].dst, I.ends.sends[k].sym>> = m})
  /\ \A m \in {RId(V[k]) : k \in DOMAIN V} \cup
              {<<I.ends.recvs[k].src, I.ends.recvs[k].rank, I.ends.recvs[k].sym>> :
                 k \in DOMAIN I.ends.recvs} :
       Cardinality({k \in DOMAIN V : RId(V[k]) = m}) =
       Cardinality({k \in DOMAIN I.ends.recvs :
          <<I.ends.recvs[k].src, I.ends.recvs[k].rank, I.ends.recvs[k].sym>> = m})

\* every message has exactly one send end and one receive end
Matched(I, S, V) ==
  /\ \A k \in DOMAIN S : Cardinality({j \in DOMAIN V : RId(V[j]) = SId(S[k])}) = 1
  /\ \A j \in DOMAIN V : Cardinality({k \in DOMAIN S : SId(S[k]) = RId(V[j])}) = 1
  /\ Injective([k \in DOMAIN S |-> SId(S[k])])
  /\ Injective([j \in DOMAIN V |-> RId(V[j])])

\* number_distributed_tags: both ends of a message carry the same integer;
\* distinct messages between the same pair of ranks carry distinct integers;
\* all integers are >= the base tag and below next_tag, which all ranks agree on
TagsAgree(I, S, V) ==
  /\ \A k \in DOMAIN S : \A j \in DOMAIN V :
       SId(S[k]) = RId(V[j]) => S[k].e.tag = V[j].e.tag
  /\ \A k \in DOMAIN S : S[k].e.tag >= I.base_tag /\ S[k].e.tag < I.ranks[1].next_tag
  /\ \A j \in DOMAIN V : V[j].e.tag >= I.base_tag /\ V[j].e.tag < I.ranks[1].next_tag
TagsDistinct(I, S, V) ==
  /\ \A k1, k2 \in DOMAIN S :
       (S[k1].rank = S[k2].rank /\ S[k1].e.dst = S[k2].e.dst /\ SId(S[k1]) # SId(S[k2]))
       => S[k1].e.tag # S[k2].e.tag
  /\ \A j1, j2 \in DOMAIN V :
       (V[j1].rank = V[j2].rank /\ V[j1].e.src = V[j2].e.src /\ RId(V[j1]) # RId(V[j2]))
       => V[j1].e.tag # V[j2].e.tag
NextTagAgrees(I) == \A r \in Ranks(I) : I.ranks[r].next_tag = I.ranks[1].next_tag
BuffersAgree(I, S, V) ==
  \A k \in DOMAIN S : \A j \in DOMAIN V :
     SId(S[k]) = RId(V[j]) => S[k].e.shape = V[j].e.shape /\ S[k].e.dtype = V[j].e.dtype

(* RoundsAgree: the number and order of communication rounds is identical   *)
(* on all ranks, stated without reference to the algorithm: there is ONE    *)
(* assignment of round numbers to messages such that on every rank          *)
(*   (E) all sends of one part share a round,                               *)
(*   (L1) a message received at the head of part p has a round strictly     *)
(*        below the sends of p and of every later part,                     *)
(*   (L2) the sends of an earlier part have a round strictly below the      *)
(*        sends of a later part,                                            *)
(* i.e. every rank's part sequence is a projection of one global sequence   *)
(* of rounds.  The witness is the least solution of these difference        *)
(* constraints (RoundsWitness); RoundsAgreeBrute searches all assignments   *)
(* and is used to cross-check the witness construction on small instances.  *)
MsgSet(S, V) == {SId(S[k]) : k \in DOMAIN S} \cup {RId(V[k]) : k \in DOMAIN V}
SentBy(S, r, p) == {SId(S[k]) : k \in {j \in DOMAIN S : S[j].rank = r - 1 /\ S[j].part = p}}
RecvdBy(V, r, p) == {RId(V[k]) : k \in {j \in DOMAIN V : V[j].rank = r - 1 /\ V[j].part = p}}
\* pairs <<a, b>> with round(a) < round(b) required, resp. round(a) = round(b)
Less(I, S, V) ==
  UNION {UNION {
    (RecvdBy(V, r, p) \X UNION {SentBy(S, r, q) : q \in {q \in Pids(I.ranks[r]) :
                                   q = p \/ p \in Before(I.ranks[r], q)}})
    \cup
    (SentBy(S, r, p) \X UNION {SentBy(S, r, q) : q \in {q \in Pids(I.ranks[r]) :
                                   p \in Before(I.ranks[r], q)}})
    : p \in Pids(I.ranks[r])} : r \in Ranks(I)}
Equal(I, S) == UNION {UNION {SentBy(S, r, p) \X SentBy(S, r, p) : p \in Pids(I.ranks[r])} :
                        r \in Ranks(I)}
RoundsOK(less, equal, round) ==
  /\ \A pr \in less : round[pr[1]] < round[pr[2]]
  /\ \A pr \in equal : round[pr[1]] = round[pr[2]]
MaxOf(X) == CHOOSE x \in X : \A y \in X : y <= x
RECURSIVE Lfp(_, _, _, _, _)
Lfp(M, less, equal, f, k) ==
  LET g == [m \in M |-> MaxOf({f[m]} \cup {f[pr[1]] + 1 : pr \in {q \in less : q[2] = m}}
                                     \cup {f[pr[1]] : pr \in {q \in equal : q[2] = m}})]
  IN IF g = f \/ k = 0 THEN g ELSE Lfp(M, less, equal, g, k - 1)
RoundsWitness(M, less, equal) ==
  Lfp(M, less, equal, [m \in M |-> 1], Cardinality(M) * Cardinality(M) + 1)
RoundsAgreeW(M, less, equal, w) == \E round \in {w} :
                                     /\ RoundsOK(less, equal, round)
                                     /\ \A m \in M : round[m] <= Cardinality(M)
RoundsAgreeBrute(M, less, equal) ==
  \E round \in [M -> 1..Cardinality(M)] : RoundsOK(less, equal, round)
NRoundsW(M, w) == IF M = {} THEN 0 ELSE MaxOf({w[m] : m \in M})

VerifyAccepts(I) == \A r \in Ranks(I) : I.verify[r] = "ok"

(* ------------------------------ verdict ------------------------------ *)
\* -> <<failing clauses, number of rounds>>
Judge(I) ==
  LET perRank(P(_)) == \A r \in Ranks(I) : P(I.ranks[r])
      wf == perRank(PidsOK)
  IN
  IF ~wf THEN <<<<"pids">>, 0>>
  ELSE
  LET S == SendEnds(I)
      V == RecvEnds(I)
      M == MsgSet(S, V)
      less == Less(I, S, V)
      equal == Equal(I, S)
      w == RoundsWitness(M, less, equal)
      rounds == RoundsAgreeW(M, less, equal, w)
  IN
  <<SelectSeq(<<
    IF perRank(Acyclic) THEN "" ELSE "acyclic",
    IF perRank(ProducedOnce) THEN "" ELSE "produced_once",
    IF perRank(OverallOK) THEN "" ELSE "overall",
    IF perRank(ReadsDefined) THEN "" ELSE "reads_defined",
    IF perRank(DeclaredReads) THEN "" ELSE "declared_reads",
    IF perRank(RecvNotOutput) THEN "" ELSE "recv_not_output",
    IF perRank(RecvOnce) THEN "" ELSE "recv_once",
    IF perRank(SentAreOutputs) THEN "" ELSE "sent_are_outputs",
    IF perRank(SendIsNamedArray) THEN "" ELSE "send_is_named_array",
    IF perRank(NoCommInside) THEN "" ELSE "no_comm_inside",
    IF perRank(Defined) THEN "" ELSE "defined",
    IF Complete(I, S, V) THEN "" ELSE "complete",
    IF Matched(I, S, V) THEN "" ELSE "matched",
    IF TagsAgree(I, S, V) THEN "" ELSE "tags_agree",
    IF TagsDistinct(I, S, V) THEN "" ELSE "tags_distinct",
    IF NextTagAgrees(I) THEN "" ELSE "next_tag",
    IF BuffersAgree(I, S, V) THEN "" ELSE "buffers_agree",
    IF rounds THEN "" ELSE "rounds_agree",
    IF Cardinality(M) <= 4 => (rounds <=> RoundsAgreeBrute(M, less, equal))
      THEN "" ELSE "MACHINERY_rounds_selfcheck",
    IF VerifyAccepts(I) THEN "" ELSE "verify_accepts"
  >>, LAMBDA c : c # ""), NRoundsW(M, w)>>

Verdict == LET I == Batch[rec] j == Judge(I)
           IN IF j[1] = <<>> THEN PrintT(<<"V", I.id, "ok", j[2]>>)
              ELSE PrintT(<<"V", I.id, "bad", j[1]>>)
=============================================================================
