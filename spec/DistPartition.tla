---------------------------- MODULE DistPartition ----------------------------
(***************************************************************************)
(* The DistributedGraphPart / DistributedGraphPartition contract           *)
(* (pytato/distributed/partition.py, class docstrings and the docstring of *)
(* find_distributed_partition) as predicates over the partitions of ALL    *)
(* ranks of one program at once.  Use E of DESIGN 2.1: every record of the *)
(* batch was exported from the real find_distributed_partition ->          *)
(* verify_distributed_partition -> number_distributed_tags (export_instance*)
(* in ptverif/distharness.py); TLC evaluates the predicates and prints one *)
(* verdict line per record,  <<"V", id, "ok">>  or                         *)
(* <<"V", id, "bad", <<failing clauses>>>>.                                *)
(*                                                                         *)
(* Record: n, ranks[r] = [parts, userin, overall, known, undefined,        *)
(* next_tag, outnames], parts[p] = [pid, needed, user_in, part_in, ins,    *)
(* outs, recvs[[name,src,tag,sym]], sends[[name,dst,tag,sym,reads,ncomm,   *)
(* same]], exprs[name -> [reads, ncomm]]]; ends = the send / receive ends  *)
(* found in the ORIGINAL per-rank DAGs by a reflective walk; verify[r] =   *)
(* what verify_distributed_partition did on rank r.  Ranks and part ids    *)
(* are 0-based in the data, 1-based as sequence positions here.            *)
(***************************************************************************)
EXTENDS Naturals, Sequences, FiniteSets, TLC, Json, IOUtils

Batch == JsonDeserialize(IOEnv.BATCH_FILE)

VARIABLE rec
Init == rec \in 1..Len(Batch)
Next == UNCHANGED rec

Rng(s) == {s[k] : k \in DOMAIN s}
Has(x, f) == f \in DOMAIN x
RECURSIVE Cat(_, _)
Cat(ss, k) == IF k > Len(ss) THEN <<>> ELSE ss[k] \o Cat(ss, k + 1)
Injective(s) == Cardinality(Rng(s)) = Len(s)

(* ------------------------------ one rank ------------------------------ *)
Pids(R) == 1..Len(R.parts)
NeededOf(R, p) == {q + 1 : q \in Rng(R.parts[p].needed)}
\* strict ancestors of p in the needed_pids relation (least fixpoint)
RECURSIVE Anc(_, _, _)
Anc(R, S, k) == LET S2 == S \cup UNION {NeededOf(R, q) \cap Pids(R) : q \in S}
                IN IF k = 0 \/ S2 = S THEN S ELSE Anc(R, S2, k - 1)
Before(R, p) == Anc(R, NeededOf(R, p) \cap Pids(R), Len(R.parts))
RecvNamesOf(R, p) == {R.parts[p].recvs[k].name : k \in DOMAIN R.parts[p].recvs}
SentNamesOf(R, p) == {R.parts[p].sends[k].name : k \in DOMAIN R.parts[p].sends}
OutsOf(R, p) == Rng(R.parts[p].outs)
InsOf(R, p) == Rng(R.parts[p].ins)
AllRecvNames(R) == UNION {RecvNamesOf(R, p) : p \in Pids(R)}
AllOuts(R) == UNION {OutsOf(R, p) : p \in Pids(R)}
ReadsOf(R, p) == UNION {Rng(R.parts[p].exprs[nm].reads) : nm \in DOMAIN R.parts[p].exprs}

PidsOK(R) == /\ Len(R.parts) >= 1
             /\ \A p \in Pids(R) : R.parts[p].pid = p - 1
             /\ \A p \in Pids(R) : NeededOf(R, p) \subseteq Pids(R)

\* the part order is acyclic
Acyclic(R) == \A p \in Pids(R) : p \notin Before(R, p)

\* each overall output, each sent array (and each stored expression) is
\* produced by exactly one part
ProducedOnce(R) ==
  /\ \A nm \in Rng(R.overall) \cup UNION {SentNamesOf(R, p) : p \in Pids(R)} \cup Rng(R.known) :
        Cardinality({p \in Pids(R) : nm \in OutsOf(R, p)}) = 1
  /\ AllOuts(R) = Rng(R.known)
  /\ \A p \in Pids(R) : DOMAIN R.parts[p].exprs = OutsOf(R, p) /\ Injective(R.parts[p].outs)

\* the overall outputs are the outputs the program asked for, in its order
OverallOK(R) == R.overall = R.outnames

\* every name a part reads is a user input, received by that or an earlier
\* part, or an output of an earlier part
ReadsDefined(R) ==
  \A p \in Pids(R) : \A nm \in InsOf(R, p) \cup ReadsOf(R, p) :
     \/ nm \in Rng(R.userin)
     \/ \E q \in Before(R, p) \cup {p} : nm \in RecvNamesOf(R, q)
     \/ \E q \in Before(R, p) : nm \in OutsOf(R, q)

\* the declared input names are exactly the names the part's expressions read
DeclaredReads(R) ==
  \A p \in Pids(R) :
     /\ InsOf(R, p) = Rng(R.parts[p].user_in) \cup Rng(R.parts[p].part_in)
     /\ ReadsOf(R, p) = InsOf(R, p)
     /\ Rng(R.parts[p].user_in) \subseteq Rng(R.userin)
     /\ \A k \in DOMAIN R.parts[p].sends : Rng(R.parts[p].sends[k].reads) \subseteq InsOf(R, p)

\* received names are never part outputs; each is received by one part
RecvNotOutput(R) == AllRecvNames(R) \cap AllOuts(R) = {}
RecvOnce(R) == \A nm \in AllRecvNames(R) :
                  Cardinality({p \in Pids(R) : nm \in RecvNamesOf(R, p)}) = 1
\* sent names always are part outputs, and the send node sends the array of that name
SentAreOutputs(R) == \A p \in Pids(R) : SentNamesOf(R, p) \subseteq OutsOf(R, p)
SendIsNamedArray(R) ==
  \A p \in Pids(R) : \A k \in DOMAIN R.parts[p].sends : R.parts[p].sends[k].same
\* no communication nodes inside part expressions
NoCommInside(R) ==
  \A p \in Pids(R) :
     /\ \A nm \in DOMAIN R.parts[p].exprs : R.parts[p].exprs[nm].ncomm = 0
     /\ \A k \in DOMAIN R.parts[p].sends : R.parts[p].sends[k].ncomm = 0
\* every stored expression can be evaluated from names defined before it
Defined(R) == R.undefined = <<>>

(* ------------------------------ all ranks ------------------------------ *)
Ranks(I) == 1..I.n
\* flat lists of send / receive ends: [rank (0-based), part (1-based), e]
SendEndsOfRank(I, r) ==
  Cat([p \in Pids(I.ranks[r]) |->
         [k \in DOMAIN I.ranks[r].parts[p].sends |->
            [rank |-> r - 1, part |-> p, e |-> I.ranks[r].parts[p].sends[k]]]], 1)
RecvEndsOfRank(I, r) ==
  Cat([p \in Pids(I.ranks[r]) |->
         [k \in DOMAIN I.ranks[r].parts[p].recvs |->
            [rank |-> r - 1, part |-> p, e |-> I.ranks[r].parts[p].recvs[k]]]], 1)
SendEnds(I) == Cat([r \in Ranks(I) |-> SendEndsOfRank(I, r)], 1)
RecvEnds(I) == Cat([r \in Ranks(I) |-> RecvEndsOfRank(I, r)], 1)
\* message identity <<src, dst, symbolic tag>>
SId(s) == <<s.rank, s.e.dst, s.e.sym>>
RId(v) == <<v.e.src, v.rank, v.e.sym>>

\* the partition contains every communication end of the program exactly
\* once (the ends found in the original DAGs by the reflective walk)
Complete(I) ==
  LET S == SendEnds(I) V == RecvEnds(I)
  IN /\ Len(S) = Len(I.ends.sends) /\ Len(V) = Len(I.ends.recvs)
     /\ \A m \in {SId(S[k]) : k \in DOMAIN S} \cup
                 {<<I.ends.sends[k].rank, I.ends.sends[k].dst, I.ends.sends[k].sym>> :
                    k \in DOMAIN I.ends.sends} :
          Cardinality({k \in DOMAIN S : SId(S[k]) = m}) =
          Cardinality({k \in DOMAIN I.ends.sends :
             <<I.ends.sends[k].rank, I.ends.sends[k].dst, I.ends.sends[k].sym>> = m})
     /\ \A m \in {RId(V[k]) : k \in DOMAIN V} \cup
                 {<<I.ends.recvs[k].src, I.ends.recvs[k].rank, I.ends.recvs[k].sym>> :
                    k \in DOMAIN I.ends.recvs} :
          Cardinality({k \in DOMAIN V : RId(V[k]) = m}) =
          Cardinality({k \in DOMAIN I.ends.recvs :
             <<I.ends.recvs[k].src, I.ends.recvs[k].rank, I.ends.recvs[k].sym>> = m})

\* every message has exactly one send end and one receive end
Matched(I) ==
  LET S == SendEnds(I) V == RecvEnds(I)
  IN /\ \A k \in DOMAIN S : Cardinality({j \in DOMAIN V : RId(V[j]) = SId(S[k])}) = 1
     /\ \A j \in DOMAIN V : Cardinality({k \in DOMAIN S : SId(S[k]) = RId(V[j])}) = 1
     /\ Injective([k \in DOMAIN S |-> SId(S[k])])
     /\ Injective([j \in DOMAIN V |-> RId(V[j])])

\* number_distributed_tags: both ends of a message carry the same integer;
\* distinct messages between the same pair of ranks carry distinct integers;
\* all integers are >= the base tag and below next_tag, which all ranks agree on
TagsAgree(I) ==
  LET S == SendEnds(I) V == RecvEnds(I)
  IN /\ \A k \in DOMAIN S : \A j \in DOMAIN V :
          SId(S[k]) = RId(V[j]) => S[k].e.tag = V[j].e.tag
     /\ \A k \in DOMAIN S : S[k].e.tag >= I.base_tag /\ S[k].e.tag < I.ranks[1].next_tag
     /\ \A j \in DOMAIN V : V[j].e.tag >= I.base_tag /\ V[j].e.tag < I.ranks[1].next_tag
TagsDistinct(I) ==
  LET S == SendEnds(I) V == RecvEnds(I)
  IN /\ \A k1, k2 \in DOMAIN S :
          (S[k1].rank = S[k2].rank /\ S[k1].e.dst = S[k2].e.dst /\ SId(S[k1]) # SId(S[k2]))
          => S[k1].e.tag # S[k2].e.tag
     /\ \A j1, j2 \in DOMAIN V :
          (V[j1].rank = V[j2].rank /\ V[j1].e.src = V[j2].e.src /\ RId(V[j1]) # RId(V[j2]))
          => V[j1].e.tag # V[j2].e.tag
NextTagAgrees(I) == \A r \in Ranks(I) : I.ranks[r].next_tag = I.ranks[1].next_tag
BuffersAgree(I) ==
  LET S == SendEnds(I) V == RecvEnds(I)
  IN \A k \in DOMAIN S : \A j \in DOMAIN V :
        SId(S[k]) = RId(V[j]) => S[k].e.shape = V[j].e.shape /\ S[k].e.dtype = V[j].e.dtype

(* RoundsAgree: the number and order of communication rounds is identical   *)
(* on all ranks, stated without reference to the algorithm: there is ONE    *)
(* assignment of round numbers to messages such that on every rank          *)
(*   (E) all sends of one part share a round,                               *)
(*   (L1) a message received at the head of part p has a round strictly     *)
(*        below the sends of p and of every later part,                     *)
(*   (L2) the sends of an earlier part have a round strictly below the      *)
(*        sends of a later part,                                            *)
(* i.e. every rank's part sequence is a projection of one global sequence   *)
(* of rounds.  The witness is the least solution of these difference        *)
(* constraints (RoundsWitness); RoundsAgreeBrute searches all assignments   *)
(* and is used to cross-check the witness construction on small instances.  *)
MsgSet(I) == {SId(SendEnds(I)[k]) : k \in DOMAIN SendEnds(I)} \cup
             {RId(RecvEnds(I)[k]) : k \in DOMAIN RecvEnds(I)}
SentBy(I, r, p) == {SId(SendEnds(I)[k]) : k \in {j \in DOMAIN SendEnds(I) :
                       SendEnds(I)[j].rank = r - 1 /\ SendEnds(I)[j].part = p}}
RecvdBy(I, r, p) == {RId(RecvEnds(I)[k]) : k \in {j \in DOMAIN RecvEnds(I) :
                       RecvEnds(I)[j].rank = r - 1 /\ RecvEnds(I)[j].part = p}}
\* pairs <<a, b>> with round(a) < round(b) required, resp. round(a) = round(b)
Less(I) ==
  UNION {UNION {
    (RecvdBy(I, r, p) \X UNION {SentBy(I, r, q) : q \in {q \in Pids(I.ranks[r]) :
                                   q = p \/ p \in Before(I.ranks[r], q)}})
    \cup
    (SentBy(I, r, p) \X UNION {SentBy(I, r, q) : q \in {q \in Pids(I.ranks[r]) :
                                   p \in Before(I.ranks[r], q)}})
    : p \in Pids(I.ranks[r])} : r \in Ranks(I)}
Equal(I) == UNION {UNION {SentBy(I, r, p) \X SentBy(I, r, p) : p \in Pids(I.ranks[r])} :
                     r \in Ranks(I)}
RoundsOK(I, round) ==
  /\ \A pr \in Less(I) : round[pr[1]] < round[pr[2]]
  /\ \A pr \in Equal(I) : round[pr[1]] = round[pr[2]]
MaxOf(S) == CHOOSE x \in S : \A y \in S : y <= x
RECURSIVE Lfp(_, _, _, _, _)
Lfp(M, less, equal, f, k) ==
  LET g == [m \in M |-> MaxOf({f[m]} \cup {f[pr[1]] + 1 : pr \in {q \in less : q[2] = m}}
                                     \cup {f[pr[1]] : pr \in {q \in equal : q[2] = m}})]
  IN IF g = f \/ k = 0 THEN g ELSE Lfp(M, less, equal, g, k - 1)
RoundsWitness(I) == LET M == MsgSet(I)
                    IN Lfp(M, Less(I), Equal(I), [m \in M |-> 1],
                           Cardinality(M) * Cardinality(M) + 1)
RoundsAgree(I) == \E round \in {RoundsWitness(I)} :
                     /\ RoundsOK(I, round)
                     /\ \A m \in MsgSet(I) : round[m] <= Cardinality(MsgSet(I))
RoundsAgreeBrute(I) == \E round \in [MsgSet(I) -> 1..Cardinality(MsgSet(I))] : RoundsOK(I, round)
RoundsSelfCheck(I) == Cardinality(MsgSet(I)) <= 4 => (RoundsAgree(I) <=> RoundsAgreeBrute(I))
NRounds(I) == IF MsgSet(I) = {} THEN 0 ELSE MaxOf({RoundsWitness(I)[m] : m \in MsgSet(I)})

VerifyAccepts(I) == \A r \in Ranks(I) : I.verify[r] = "ok"

(* ------------------------------ verdict ------------------------------ *)
Clauses(I) ==
  LET perRank(P(_)) == \A r \in Ranks(I) : P(I.ranks[r])
      wf == perRank(PidsOK)
  IN
  IF ~wf THEN <<"pids">>
  ELSE
  SelectSeq(<<
    IF perRank(Acyclic) THEN "" ELSE "acyclic",
    IF perRank(ProducedOnce) THEN "" ELSE "produced_once",
    IF perRank(OverallOK) THEN "" ELSE "overall",
    IF perRank(ReadsDefined) THEN "" ELSE "reads_defined",
    IF perRank(DeclaredReads) THEN "" ELSE "declared_reads",
    IF perRank(RecvNotOutput) THEN "" ELSE "recv_not_output",
    IF perRank(RecvOnce) THEN "" ELSE "recv_once",
    IF perRank(SentAreOutputs) THEN "" ELSE "sent_are_outputs",
    IF perRank(SendIsNamedArray) THEN "" ELSE "send_is_named_array",
    IF perRank(NoCommInside) THEN "" ELSE "no_comm_inside",
    IF perRank(Defined) THEN "" ELSE "defined",
    IF Complete(I) THEN "" ELSE "complete",
    IF Matched(I) THEN "" ELSE "matched",
    IF TagsAgree(I) THEN "" ELSE "tags_agree",
    IF TagsDistinct(I) THEN "" ELSE "tags_distinct",
    IF NextTagAgrees(I) THEN "" ELSE "next_tag",
    IF BuffersAgree(I) THEN "" ELSE "buffers_agree",
    IF RoundsAgree(I) THEN "" ELSE "rounds_agree",
    IF RoundsSelfCheck(I) THEN "" ELSE "MACHINERY_rounds_selfcheck",
    IF VerifyAccepts(I) THEN "" ELSE "verify_accepts"
  >>, LAMBDA c : c # "")

Verdict == LET I == Batch[rec] c == Clauses(I)
           IN IF c = <<>> THEN PrintT(<<"V", I.id, "ok", NRounds(I)>>)
              ELSE PrintT(<<"V", I.id, "bad", c>>)
=============================================================================
