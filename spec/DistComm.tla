------------------------------ MODULE DistComm ------------------------------
(***************************************************************************)
(* Generator (use G of DESIGN 2.1) of multi-rank programs for the          *)
(* distributed family C08 / C09 / C10: the global communication structure  *)
(* and the skeleton of every rank's DAG, plus the single-fault mutations   *)
(* of C10 and the predicate WellFormedInput that decides what pytato must  *)
(* do with the result.                                                     *)
(*                                                                         *)
(* A program is                                                            *)
(*   n        number of ranks (ranks are 0..n-1)                           *)
(*   sends    sequence of send ends  [src, dst, tag, deps, kind, share, on]*)
(*              deps  = set of receive-end indices on rank src whose data  *)
(*                      the sent array is computed from                    *)
(*              kind  = "comp" (computed from the rank's input and deps),  *)
(*                      "in" (the input placeholder itself, unchanged),    *)
(*                      "fwd" (the received array itself, unchanged)       *)
(*              share = i > 0: the sent array is the very array send i     *)
(*                      sends (a duplicate send of the same data)          *)
(*              inside = j > 0: the send's holder sits INSIDE THE DATA of  *)
(*                      send j of the same rank (nesting depth <= 2);      *)
(*                      0: on the rank's output expression                 *)
(*              par   = TRUE: the holder is an operand of the output       *)
(*                      expression of its own (in parallel to the others), *)
(*                      FALSE: on the pass-through chain of holders        *)
(*   recvs    sequence of receive ends [dst, src, tag, use, v, on]         *)
(*              use = "out" (feeds the rank's computed output), "asout"    *)
(*                    (is itself an output, unchanged), "both", "none"     *)
(*                    (reachable only through a send holder)               *)
(*              v   > 0: carries an extra tag, i.e. is a distinct node     *)
(*   stored   rank -> 0..3: ImplStored intermediates (1: one below all     *)
(*            sends and the output; 2: one on top of every receive; 3: both)*)
(*   staple   rank -> 0 | 1: send holders on top of the output expression  *)
(*            or below it                                                  *)
(*   eo       rank -> 0..2: an extra overall output that is a materialised *)
(*            array other parts read too: 1 = the rank's input unchanged,  *)
(*            2 = the stored intermediate below the sends (else the input) *)
(* A valid send may also SHARE its data with an earlier send of its rank   *)
(* (share = j: one array, several send nodes, other destination / tag);    *)
(* with a send of another array between them in holder order this is the   *)
(* "interleaved shared array" shape.                                       *)
(* ptverif/distharness.py (comm_to_prog) turns this into real pytato DAGs. *)
(*                                                                         *)
(* The state machine builds programs step by step (AddMsg in increasing    *)
(* order, ChooseDeps, ChooseUse, ChooseStored, Finish), so that TLC        *)
(* enumerates them exhaustively for small bounds and samples them with     *)
(* -simulate for larger ones.  Programs are emitted only if their message  *)
(* set is the least among its images under permutations of the ranks       *)
(* (enumeration up to rank symmetry).  From every finished valid program   *)
(* the fault actions make one (or MaxFaults) mutation(s); every finished   *)
(* or mutated program is printed as one JSON line together with the        *)
(* expected verdict.                                                       *)
(***************************************************************************)
EXTENDS Integers, Sequences, FiniteSets, TLC, Json

CONSTANTS MaxRanks,     \* 1..MaxRanks ranks
          MaxOps,       \* 0..MaxOps messages in a valid program
          NTags,        \* symbolic tags 1..NTags
          Variants,     \* TRUE: enumerate kinds / uses / stored / staple; FALSE: defaults
          MaxFaults,    \* 0: valid programs only
          EmitValid,    \* FALSE: print faulted programs only
          MinOps,       \* at least so many messages in a valid program
          Exhaustive    \* TRUE: messages are added in increasing order and only the
                        \* canonical representative of each rank-permutation class is
                        \* kept (for exhaustive enumeration); FALSE: any order, no
                        \* symmetry reduction (for -simulate)

VARIABLES n, sends, recvs, stored, staple, eo, faults, phase, cur
vars == <<n, sends, recvs, stored, staple, eo, faults, phase, cur>>

RanksOf(nn) == 0..(nn - 1)
Rks == RanksOf(n)

---------------------------------------------------------------------------
(* derived structure: only ends that are switched on and actually reachable *)
(* from an output of their rank's DAG exist                                 *)
\* a holder inside the data of another send exists only if that send does
SAlive(i) == /\ sends[i].on
             /\ sends[i].inside # 0 =>
                  /\ sends[sends[i].inside].on
                  /\ sends[sends[i].inside].inside # 0 => sends[sends[sends[i].inside].inside].on
SOn == {i \in DOMAIN sends : SAlive(i)}
NestDepth(i) == IF sends[i].inside = 0 THEN 0
                ELSE IF sends[sends[i].inside].inside = 0 THEN 1 ELSE 2
\* may host another holder in its data: computed data of its own, not nested too deep
CanHost(k) == sends[k].on /\ sends[k].kind = "comp" /\ sends[k].share = 0 /\ NestDepth(k) <= 1
\* a duplicate send of the same data has the dependencies of the send it shares with
EffDeps(i) == IF sends[i].share = 0 THEN sends[i].deps
              ELSE IF sends[sends[i].share].share = 0 THEN sends[sends[i].share].deps
              ELSE sends[sends[sends[i].share].share].deps
RReach(j) == recvs[j].on /\ (recvs[j].use # "none" \/
                             \E i \in SOn : sends[i].src = recvs[j].dst /\ j \in EffDeps(i))
ROn == {j \in DOMAIN recvs : RReach(j)}
STrip(i) == <<sends[i].src, sends[i].dst, sends[i].tag>>
RTrip(j) == <<recvs[j].src, recvs[j].dst, recvs[j].tag>>

\* b \in CommDepGraph[a]: to start message a, message b must have completed
DepEdges == UNION {{<<STrip(i), RTrip(j)>> : j \in EffDeps(i) \cap ROn} : i \in SOn}
RECURSIVE TC(_, _)
TC(E, k) == LET E2 == E \cup UNION {{<<a[1], b[2]>> : b \in {x \in E : x[1] = a[2]}} : a \in E}
            IN IF E2 = E \/ k = 0 THEN E ELSE TC(E2, k - 1)
Cyclic == \E e \in TC(DepEdges, 16) : e[1] = e[2]

SelfS == {i \in SOn : sends[i].src = sends[i].dst}
SelfR == {j \in ROn : recvs[j].src = recvs[j].dst}
DupS == {i \in SOn : \E k \in SOn : k # i /\ STrip(k) = STrip(i)}
\* two receive ends with equal fields are ONE node of the DAG (pytato arrays
\* compare structurally); only ends that differ in something (v) are duplicates
RNode(j) == <<recvs[j].dst, recvs[j].src, recvs[j].tag, recvs[j].v>>
DupR == {j \in ROn : \E k \in ROn : RTrip(k) = RTrip(j) /\ RNode(k) # RNode(j)}
OrphanR == {j \in ROn : ~\E i \in SOn : STrip(i) = RTrip(j)}     \* no matching send
OrphanS == {i \in SOn : ~\E j \in ROn : RTrip(j) = STrip(i)}     \* no matching receive

(* WellFormedInput: every (src, dst, tag) has exactly one send and one      *)
(* receive, nobody talks to himself, the dependency graph of the messages   *)
(* is acyclic                                                               *)
WellFormedInput == /\ SelfS = {} /\ SelfR = {} /\ DupS = {} /\ DupR = {}
                   /\ OrphanR = {} /\ OrphanS = {} /\ ~Cyclic
Why == {c \in {"self", "dup_send", "dup_recv", "missing_send", "missing_recv", "cycle"} :
          CASE c = "self" -> SelfS # {} \/ SelfR # {}
            [] c = "dup_send" -> DupS # {}
            [] c = "dup_recv" -> DupR # {}
            [] c = "missing_send" -> OrphanR # {}
            [] c = "missing_recv" -> OrphanS # {}
            [] c = "cycle" -> Cyclic}

\* the ranks whose local graph shows the fault, by the stage of the
\* partitioner at which it becomes visible, and the diagnostics each may give
Stage1(r) == {"NotImplementedError" : x \in {i \in SelfS : sends[i].src = r} \cup
                                             {j \in SelfR : recvs[j].dst = r}}
             \cup {"DuplicateSendError" : x \in {i \in DupS : sends[i].src = r}}
             \cup {"DuplicateRecvError" : x \in {j \in DupR : recvs[j].dst = r}}
Stage3(r) == {"MissingSendError" : x \in {j \in OrphanR : recvs[j].src = r}}
             \cup {"MissingRecvError" : x \in {i \in OrphanS : sends[i].dst = r}}
Affected == {r \in Rks : Stage1(r) # {} \/ Stage3(r) # {}} \cup (IF Cyclic THEN Rks ELSE {})
ExpectRaise(r) == IF \E q \in Rks : Stage1(q) # {} THEN Stage1(r)
                  ELSE IF Cyclic THEN {"CycleError"}
                  ELSE Stage3(r)

RECURSIVE SortedSeq(_)
SortedSeq(S) == IF S = {} THEN <<>>
                ELSE LET m == CHOOSE x \in S : \A y \in S : x <= y
                     IN <<m>> \o SortedSeq(S \ {m})

(* The specification's own scheduler: dependency levels (longest path) of   *)
(* the messages; a well-formed input has them                               *)
Msgs == {STrip(i) : i \in SOn} \cup {RTrip(j) : j \in ROn}
MaxOf(S) == CHOOSE x \in S : \A y \in S : y <= x
RECURSIVE LevelFix(_, _)
LevelFix(f, k) ==
  LET g == [m \in Msgs |-> MaxOf({f[m]} \cup {f[e[2]] + 1 : e \in {x \in DepEdges : x[1] = m}})]
  IN IF g = f \/ k = 0 THEN g ELSE LevelFix(g, k - 1)
Levels == LevelFix([m \in Msgs |-> 0], Cardinality(Msgs) + 1)
LevelsOK == (phase = "done" /\ WellFormedInput) =>
              LET lv == Levels IN
              /\ \A e \in DepEdges : lv[e[1]] > lv[e[2]]
              /\ \A m \in Msgs : lv[m] < Cardinality(Msgs)

(* The specification's own partitioner (a design-level model of the        *)
(* documented scheme, independent of the code): batch k = the messages of  *)
(* level k; rank r gets one part for every k at which it has something to  *)
(* receive from batch k-1 or to send in batch k; a part begins with its    *)
(* receives and ends with its sends.  The harness turns AbsParts into an   *)
(* instance of the exported-partition format (data flow: a sent array      *)
(* reads the rank's input and the receives it depends on, the output reads *)
(* the input and every receive) and requires DistPartition's contract and  *)
(* DistExec's safety on it -- for every communication pattern in the bound.*)
\* (lv: the level function, computed once by the caller -- TLC caches LET
\* definitions, not operators)
NLevelsL(lv) == IF Msgs = {} THEN 0 ELSE 1 + MaxOf({lv[m] : m \in Msgs})
RecvAt(lv, r, k) == {m \in Msgs : m[2] = r /\ lv[m] = k - 1}
SendAt(lv, r, k) == {m \in Msgs : m[1] = r /\ lv[m] = k}
PartIdx(lv, r) == LET S == {k \in 0..NLevelsL(lv) : RecvAt(lv, r, k) # {} \/ SendAt(lv, r, k) # {}}
                  IN IF S = {} THEN {0} ELSE S
ReadsOfMsg(m) == UNION {{RTrip(j) : j \in EffDeps(i) \cap ROn} : i \in {x \in SOn : STrip(x) = m}}
AbsPartsL(lv, r) == LET ks == SortedSeq(PartIdx(lv, r))
                    IN [p \in DOMAIN ks |->
                          [recvs |-> RecvAt(lv, r, ks[p]),
                           sends |-> {[m |-> m, reads |-> ReadsOfMsg(m)] : m \in SendAt(lv, r, ks[p])}]]
AbsParts(r) == AbsPartsL(Levels, r)
\* the abstract partition is a projection of one global sequence of rounds
AbsRoundsOK == (phase = "done" /\ WellFormedInput) =>
  LET lv == Levels IN
  \A r \in Rks : LET ps == AbsPartsL(lv, r) IN \A p \in DOMAIN ps :
     /\ \A a \in ps[p].recvs : \A b \in ps[p].sends : lv[a] < lv[b.m]
     /\ \A b \in ps[p].sends : \A a \in b.reads : \E q \in 1..p : a \in ps[q].recvs

---------------------------------------------------------------------------
(* order on triples and canonical form under rank permutations *)
TripNo(nn, tr) == (tr[1] * nn + tr[2]) * (NTags + 2) + tr[3]
MsgNos(nn, S) == {TripNo(nn, STrip(i)) : i \in S}
RECURSIVE LexLeq(_, _)
LexLeq(a, b) == IF a = <<>> THEN TRUE
                ELSE IF Head(a) < Head(b) THEN TRUE
                ELSE IF Head(a) > Head(b) THEN FALSE
                ELSE LexLeq(Tail(a), Tail(b))
Canonical ==
  LET mine == SortedSeq(MsgNos(n, DOMAIN sends))
  IN \A pi \in Permutations(Rks) :
       LexLeq(mine, SortedSeq({TripNo(n, <<pi[sends[i].src], pi[sends[i].dst], sends[i].tag>>) :
                                 i \in DOMAIN sends}))

---------------------------------------------------------------------------
Init == /\ n \in 1..MaxRanks
        /\ sends = <<>> /\ recvs = <<>>
        /\ stored = [r \in RanksOf(n) |-> 0] /\ staple = [r \in RanksOf(n) |-> 0]
        /\ eo = [r \in RanksOf(n) |-> 0]
        /\ faults = <<>> /\ phase = "msgs" /\ cur = 0

AddMsg(s, d, t) ==
  /\ phase = "msgs" /\ Len(sends) < MaxOps /\ s # d
  /\ IF Exhaustive THEN TripNo(n, <<s, d, t>>) > cur
     ELSE \A i \in DOMAIN sends : STrip(i) # <<s, d, t>>
  /\ sends' = Append(sends, [src |-> s, dst |-> d, tag |-> t, deps |-> {}, kind |-> "comp",
                             share |-> 0, on |-> TRUE, inside |-> 0, par |-> FALSE])
  /\ recvs' = Append(recvs, [dst |-> d, src |-> s, tag |-> t, use |-> "out", v |-> 0, on |-> TRUE])
  /\ cur' = TripNo(n, <<s, d, t>>)
  /\ UNCHANGED <<n, stored, staple, eo, faults, phase>>

EndMsgs == /\ phase = "msgs" /\ Len(sends) >= MinOps /\ (Exhaustive => Canonical)
           /\ phase' = "deps" /\ cur' = 1
           /\ UNCHANGED <<n, sends, recvs, stored, staple, eo, faults>>

Kinds(D) == IF ~Variants THEN {"comp"}
            ELSE IF D = {} THEN {"comp", "in"}
            ELSE IF Cardinality(D) = 1 THEN {"comp", "fwd"}
            ELSE {"comp"}

\* where the holder of send cur goes: <<inside, par>>
Places == IF ~Variants THEN {<<0, FALSE>>}
          ELSE {<<0, FALSE>>, <<0, TRUE>>} \cup
               {<<k, FALSE>> : k \in {k \in 1..(cur - 1) : sends[k].src = sends[cur].src /\ CanHost(k)}}

\* earlier sends of the same rank whose array send cur may send as well
Sharable == IF ~Variants THEN {}
            ELSE {j \in 1..(cur - 1) : sends[j].src = sends[cur].src /\ sends[j].share = 0}

ChooseDeps ==
  /\ phase = "deps" /\ cur <= Len(sends)
  /\ \/ \E D \in SUBSET {j \in DOMAIN recvs : recvs[j].dst = sends[cur].src} :
          \E k \in Kinds(D) : \E pl \in Places :
             sends' = [sends EXCEPT ![cur].deps = D, ![cur].kind = k,
                                    ![cur].inside = pl[1], ![cur].par = pl[2]]
     \* (the sharing send cannot sit inside the very data it sends)
     \/ \E j \in Sharable :
          \E pl \in {q \in Places : q[1] = 0 \/ (q[1] # j /\ sends[q[1]].inside # j)} :
             sends' = [sends EXCEPT ![cur].deps = sends[j].deps, ![cur].kind = sends[j].kind,
                                    ![cur].share = j,
                                    ![cur].inside = pl[1], ![cur].par = pl[2]]
  /\ cur' = cur + 1
  /\ UNCHANGED <<n, recvs, stored, staple, eo, faults, phase>>

EndDeps == /\ phase = "deps" /\ cur > Len(sends) /\ ~Cyclic
           /\ phase' = IF Variants THEN "uses" ELSE "done"
           /\ cur' = 1
           /\ UNCHANGED <<n, sends, recvs, stored, staple, eo, faults>>

Uses(j) == IF \E i \in DOMAIN sends : sends[i].src = recvs[j].dst /\ j \in sends[i].deps
           THEN {"out", "asout", "both", "none"} ELSE {"out", "asout", "both"}

ChooseUse ==
  /\ phase = "uses" /\ cur <= Len(recvs)
  /\ \E u \in Uses(cur) : recvs' = [recvs EXCEPT ![cur].use = u]
  /\ cur' = cur + 1
  /\ UNCHANGED <<n, sends, stored, staple, eo, faults, phase>>

EndUses == /\ phase = "uses" /\ cur > Len(recvs)
           /\ phase' = "stored" /\ cur' = 0
           /\ UNCHANGED <<n, sends, recvs, stored, staple, eo, faults>>

ChooseStored ==
  /\ phase = "stored" /\ cur < n
  /\ \E m \in 0..3 : \E st \in 0..1 :
       \E e \in (IF \E i \in DOMAIN sends : sends[i].src = cur THEN 0..2 ELSE {0}) :
       /\ stored' = [stored EXCEPT ![cur] = m]
       /\ staple' = [staple EXCEPT ![cur] = st]
       /\ eo' = [eo EXCEPT ![cur] = e]
  /\ cur' = cur + 1
  /\ UNCHANGED <<n, sends, recvs, faults, phase>>

EndStored == /\ phase = "stored" /\ cur >= n
             /\ phase' = "done" /\ cur' = 0
             /\ UNCHANGED <<n, sends, recvs, stored, staple, eo, faults>>

---------------------------------------------------------------------------
(* faults: applied to finished valid programs *)
CanFault == phase = "done" /\ Len(faults) < MaxFaults
Faulted(f) == /\ faults' = Append(faults, f)
              /\ UNCHANGED <<n, stored, staple, eo, phase, cur>>

DropSend(i) == /\ CanFault /\ i \in SOn
               /\ sends' = [sends EXCEPT ![i].on = FALSE]
               /\ UNCHANGED recvs
               /\ Faulted([f |-> "drop_send", at |-> i])

DropRecv(j) == /\ CanFault /\ j \in DOMAIN recvs /\ recvs[j].on
               /\ recvs' = [recvs EXCEPT ![j].on = FALSE]
               /\ sends' = [i \in DOMAIN sends |->
                              IF j \in sends[i].deps
                              THEN [sends[i] EXCEPT !.deps = @ \ {j},
                                                    !.kind = IF @ = "fwd" THEN "comp" ELSE @]
                              ELSE sends[i]]
               /\ Faulted([f |-> "drop_recv", at |-> j])

\* host: 0 = on the holder chain, -1 = in parallel, k > 0 = inside the data of
\* send k (k = i: inside the data of the send it duplicates; k nested in i:
\* depth 2), -2 = the ORIGINAL is moved inside the data of the duplicate
DupSend(i, sh, host) ==
  /\ CanFault /\ i \in SOn /\ sh \in {0, i}
  /\ host \in {0, -1, -2} \cup {k \in DOMAIN sends : sends[k].src = sends[i].src /\ CanHost(k)}
  /\ sh = i => host \in {0, -1}
  /\ host = -2 => sends[i].inside = 0
  /\ LET new == [src |-> sends[i].src, dst |-> sends[i].dst, tag |-> sends[i].tag,
                  deps |-> {}, kind |-> "comp", share |-> sh, on |-> TRUE,
                  inside |-> IF host > 0 THEN host ELSE 0, par |-> host = -1]
         ss == Append(sends, new)
     IN sends' = IF host = -2 THEN [ss EXCEPT ![i].inside = Len(ss), ![i].par = FALSE] ELSE ss
  /\ UNCHANGED recvs
  /\ Faulted([f |-> "dup_send", at |-> i, arg |-> sh, host |-> host])

DupRecv(j) == /\ CanFault /\ j \in DOMAIN recvs /\ recvs[j].on
              /\ recvs' = Append(recvs, [dst |-> recvs[j].dst, src |-> recvs[j].src,
                                         tag |-> recvs[j].tag, use |-> "out", v |-> 1, on |-> TRUE])
              /\ UNCHANGED sends
              /\ Faulted([f |-> "dup_recv", at |-> j])

RetagSend(i, t) == /\ CanFault /\ i \in SOn /\ t \in 1..(NTags + 1) /\ t # sends[i].tag
                   /\ sends' = [sends EXCEPT ![i].tag = t]
                   /\ UNCHANGED recvs
                   /\ Faulted([f |-> "retag_send", at |-> i, arg |-> t])

RetagRecv(j, t) == /\ CanFault /\ j \in DOMAIN recvs /\ recvs[j].on
                   /\ t \in 1..(NTags + 1) /\ t # recvs[j].tag
                   /\ recvs' = [recvs EXCEPT ![j].tag = t]
                   /\ UNCHANGED sends
                   /\ Faulted([f |-> "retag_recv", at |-> j, arg |-> t])

\* includes d = src: a self-send
RedirectSend(i, d) == /\ CanFault /\ i \in SOn /\ d \in Rks /\ d # sends[i].dst
                      /\ sends' = [sends EXCEPT ![i].dst = d]
                      /\ UNCHANGED recvs
                      /\ Faulted([f |-> "redirect_send", at |-> i, arg |-> d])

RedirectRecv(j, s) == /\ CanFault /\ j \in DOMAIN recvs /\ recvs[j].on
                      /\ s \in Rks /\ s # recvs[j].src
                      /\ recvs' = [recvs EXCEPT ![j].src = s]
                      /\ UNCHANGED sends
                      /\ Faulted([f |-> "redirect_recv", at |-> j, arg |-> s])

\* a matched message from a rank to itself
SelfPair(r, t) == /\ CanFault /\ r \in Rks /\ t \in 1..NTags
                  /\ sends' = Append(sends, [src |-> r, dst |-> r, tag |-> t, deps |-> {},
                                             kind |-> "comp", share |-> 0, on |-> TRUE,
                                             inside |-> 0, par |-> FALSE])
                  /\ recvs' = Append(recvs, [dst |-> r, src |-> r, tag |-> t, use |-> "out",
                                             v |-> 0, on |-> TRUE])
                  /\ Faulted([f |-> "self_pair", at |-> r, arg |-> t])

\* one more dependency of a send on a receive of its rank that closes a cycle
CloseCycle(i, j) == /\ CanFault /\ i \in SOn /\ j \in DOMAIN recvs /\ recvs[j].on
                    /\ recvs[j].dst = sends[i].src /\ j \notin sends[i].deps
                    /\ sends[i].share = 0
                    /\ sends' = [sends EXCEPT ![i].deps = @ \cup {j}, ![i].kind = "comp"]
                    /\ UNCHANGED recvs
                    /\ Faulted([f |-> "close_cycle", at |-> i, arg |-> j])
                    /\ Cyclic'

Fault == \/ \E i \in DOMAIN sends : \/ DropSend(i)
                                    \/ \E sh \in {0, i} : \E h \in (-2)..Len(sends) : DupSend(i, sh, h)
                                    \/ \E t \in 1..(NTags + 1) : RetagSend(i, t)
                                    \/ \E d \in Rks : RedirectSend(i, d)
                                    \/ \E j \in DOMAIN recvs : CloseCycle(i, j)
         \/ \E j \in DOMAIN recvs : \/ DropRecv(j) \/ DupRecv(j)
                                    \/ \E t \in 1..(NTags + 1) : RetagRecv(j, t)
                                    \/ \E s \in Rks : RedirectRecv(j, s)
         \/ \E r \in Rks : \E t \in 1..NTags : SelfPair(r, t)

Next == \/ \E s, d \in Rks : \E t \in 1..NTags : AddMsg(s, d, t)
        \/ EndMsgs \/ ChooseDeps \/ EndDeps \/ ChooseUse \/ EndUses
        \/ ChooseStored \/ EndStored
        \/ Fault

Spec == Init /\ [][Next]_vars

---------------------------------------------------------------------------
(* emission: one JSON line per finished (and per mutated) program *)
Seq2(S) == SortedSeq(S)
Behaviour ==
  LET lv == Levels IN
  [n |-> n,
   sends |-> [i \in DOMAIN sends |->
                [src |-> sends[i].src, dst |-> sends[i].dst, tag |-> sends[i].tag,
                 deps |-> Seq2(EffDeps(i)), kind |-> sends[i].kind,
                 share |-> sends[i].share, on |-> sends[i].on,
                 inside |-> sends[i].inside, par |-> sends[i].par, alive |-> SAlive(i)]],
   recvs |-> [j \in DOMAIN recvs |->
                [dst |-> recvs[j].dst, src |-> recvs[j].src, tag |-> recvs[j].tag,
                 use |-> recvs[j].use, v |-> recvs[j].v, on |-> recvs[j].on,
                 reach |-> RReach(j)]],
   stored |-> [r \in 1..n |-> stored[r - 1]],
   staple |-> [r \in 1..n |-> staple[r - 1]],
   eo |-> [r \in 1..n |-> eo[r - 1]],
   faults |-> faults,
   wf |-> WellFormedInput,
   why |-> Why,
   affected |-> Affected,
   expect |-> [r \in 1..n |-> ExpectRaise(r - 1)],
   levels |-> {<<m, lv[m]>> : m \in Msgs},
   abs |-> IF WellFormedInput THEN [r \in 1..n |-> AbsPartsL(lv, r - 1)] ELSE <<>>]

Emit == (phase = "done" /\ (EmitValid \/ faults # <<>>)) => PrintT(<<"B", ToJson(Behaviour)>>)

\* invariants of the generator itself
ValidBeforeFaults == (phase = "done" /\ faults = <<>>) => WellFormedInput
ModelOK == LevelsOK /\ ValidBeforeFaults /\ AbsRoundsOK
=============================================================================
