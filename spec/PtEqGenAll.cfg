CONSTANT AllPairs = TRUE
INIT Init
NEXT Next
INVARIANT ModelOK
INVARIANT Emit
CHECK_DEADLOCK FALSE
