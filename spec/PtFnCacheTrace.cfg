CONSTANTS
  NF = 12
  Share = TRUE
INIT TInit
NEXT TNext
INVARIANT Verdict
INVARIANT Inv
CHECK_DEADLOCK FALSE
