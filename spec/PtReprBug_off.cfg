CONSTANTS
  N = 3
  D = 2
  Mode = "off_by_one"
INIT Init
NEXT Next
INVARIANTS Correct
CHECK_DEADLOCK FALSE
