CONSTANT Q = 7
INIT Init
NEXT Next
INVARIANT SoundAdd
INVARIANT SoundSub
INVARIANT SoundScale
INVARIANT SoundDivC
CHECK_DEADLOCK FALSE
