------------------------------- MODULE PtNames -------------------------------
(***************************************************************************)
(* C15: names in generated code.                                           *)
(*                                                                         *)
(* G (config PtNamesGen): enumerates adversarial NAMINGS of a program      *)
(* template -- which user-chosen name goes on which entity -- together     *)
(* with the verdict the property demands:                                  *)
(*   "reject"  two DISTINCT entities were given the same user name (two    *)
(*             inputs; an input and an output that is not that input; an   *)
(*             output key / input name and a Named tag; two Named tags)    *)
(*   "either"  an error is permitted but not required (a Named tag yields  *)
(*             exactly that name OR an error; an output that returns an    *)
(*             input under that input's own name)                          *)
(*   "accept"  otherwise; when accepted, Faithful and Injective must hold  *)
(*             on the generated program.                                   *)
(* E (config PtNamesCheck): validates the identifier assignment observed   *)
(* in a REAL generated kernel (record exported by the harness):            *)
(*   Faithful     every named input and every output key is an argument of *)
(*                exactly that name, result keys = output keys; a Named    *)
(*                tag that was honoured names a temporary exactly so       *)
(*   Injective    no identifier denotes two entities: arguments,           *)
(*                temporaries, inames and substitution rules are pairwise  *)
(*                distinct, and no two distinct user entities share one    *)
(*   GeneratedAreReserved  every argument / temporary that no user name    *)
(*                accounts for lies in the reserved _pt_ region (or        *)
(*                carries a PrefixNamed prefix)                            *)
(*   ClashRejected  a naming that must be rejected was rejected            *)
(*   DataHandedBack every wrapped object is pre-bound, identical and       *)
(*                unmodified                                               *)
(***************************************************************************)
EXTENDS Integers, Sequences, FiniteSets, TLC, Json, IOUtils

SeqSet(s) == {s[i] : i \in DOMAIN s}
NoDup(s) == \A i, j \in DOMAIN s : i # j => s[i] # s[j]

(***************************************************************************)
(* Generator.  A template has NIn inputs, NOut outputs and one optionally  *)
(* Named intermediate; OutIsIn[o] = index of the input an output simply    *)
(* returns (0 = a computed array).                                         *)
(***************************************************************************)
CONSTANTS Pool,          \* user names to choose from (adversarial)
          NIn, NOut,     \* template size
          OutIsIn        \* sequence of length NOut

T00 == <<0, 0>>     \* two computed outputs
T01 == <<0, 1>>     \* second output returns input 1 unchanged
T0 == <<0>>
VARIABLES inName, outKey, named, emitted, r
gvars == <<inName, outKey, named, emitted>>

NamedOpts == Pool \cup {"-"}          \* "-" = no Named tag

GenInit == /\ inName \in [1..NIn -> Pool]
           /\ outKey \in [1..NOut -> Pool]
           /\ named \in NamedOpts
           /\ emitted = FALSE
           /\ r = 0

\* distinct entities carrying the same user name
MustReject ==
  \/ \E i, j \in 1..NIn : i < j /\ inName[i] = inName[j]
  \/ \E o, p \in 1..NOut : o < p /\ outKey[o] = outKey[p]      \* (a dict cannot hold this)
  \/ \E o \in 1..NOut, i \in 1..NIn : outKey[o] = inName[i] /\ OutIsIn[o] # i
  \/ named # "-" /\ (\E i \in 1..NIn : inName[i] = named)
  \/ named # "-" /\ (\E o \in 1..NOut : outKey[o] = named)

\* an error is permitted (but not required): a Named tag "yields exactly that
\* name or an error"; an output that returns an input under that input's own name
MayReject ==
  \/ named # "-"
  \/ \E o \in 1..NOut, i \in 1..NIn : OutIsIn[o] = i /\ outKey[o] = inName[i]

Emit == /\ ~emitted
        /\ emitted' = TRUE
        /\ PrintT(<<"NAMING", ToJson([ins |-> inName, outs |-> outKey, named |-> named,
                                      expect |-> IF MustReject THEN "reject"
                                                 ELSE IF MayReject THEN "either"
                                                 ELSE "accept"])>>)
        /\ UNCHANGED <<inName, outKey, named, r>>
GenNext == Emit
\* a dictionary cannot have two equal keys: such namings are not programs
GenConstraint == \A o, p \in 1..NOut : o < p => outKey[o] # outKey[p]

(***************************************************************************)
(* Checker.                                                                *)
(***************************************************************************)
Batch == JsonDeserialize(IOEnv.BATCH_FILE)
CheckInit == /\ r \in 1..Len(Batch)
             /\ inName = <<>> /\ outKey = <<>> /\ named = "-" /\ emitted = TRUE
CheckNext == UNCHANGED <<r, inName, outKey, named, emitted>>

Clause(rec) ==
  IF rec.verdict = "rejected" THEN
       (IF rec.expect = "accept" THEN "rejected_valid_naming" ELSE "ok")
  ELSE
  LET args == rec.args temps == rec.temps inames == rec.inames substs == rec.substs
      ids == args \o temps \o inames \o substs
      userNames == SeqSet(rec.input_names) \cup SeqSet(rec.out_keys)
                   \cup SeqSet(rec.named_honoured)
  IN
  IF rec.expect = "reject" THEN "clash_not_rejected"
  ELSE IF ~NoDup(ids) THEN "duplicate_identifier"
  ELSE IF \E q \in DOMAIN rec.input_names : rec.input_names[q] \notin SeqSet(args)
       THEN "input_name_not_an_argument"
  ELSE IF \E q \in DOMAIN rec.out_keys : rec.out_keys[q] \notin SeqSet(rec.out_args)
       THEN "output_key_not_an_output_argument"
  ELSE IF SeqSet(rec.result_keys) # SeqSet(rec.out_keys) THEN "result_keys"
  ELSE IF \E q \in DOMAIN rec.named_honoured :
             rec.named_honoured[q] \notin (SeqSet(temps) \cup SeqSet(args))
       THEN "named_tag_not_honoured_exactly"
  ELSE IF \E q \in DOMAIN rec.generated : ~rec.generated[q].reserved
       THEN "generated_name_outside_reserved_region"
  ELSE IF \E q \in DOMAIN rec.generated : rec.generated[q].name \in userNames
       THEN "generated_name_equals_user_name"
  ELSE IF ~rec.data_identical THEN "wrapped_data_not_handed_back"
  ELSE IF Len(rec.bound_keys) # rec.n_wrapped THEN "wrapped_data_merged_or_missing"
  ELSE IF ~rec.values_ok THEN "values_differ_from_numpy"
  ELSE "ok"

Verdict == PrintT(<<"V", Batch[r].id, Clause(Batch[r])>>)
=============================================================================
