CONSTANTS
  N = 4
  WithFn = FALSE
  TwoParts = TRUE
  Bug = "wrong_part"
INIT Init
NEXT Next
INVARIANTS RefFaithful
CHECK_DEADLOCK FALSE
