CONSTANTS
  N = 3
  WithFn = TRUE
  TwoParts = TRUE
  Bug = "func_per_call"
INIT Init
NEXT Next
INVARIANTS RefFaithful
CHECK_DEADLOCK FALSE
