CONSTANTS
  MaxEpoch = 2
  CopyMemo = TRUE
INIT EInit
NEXT ENext
INVARIANT EReport
INVARIANT MemoIntact
CHECK_DEADLOCK FALSE
