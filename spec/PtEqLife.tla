------------------------------ MODULE PtEqLife ------------------------------
(***************************************************************************)
(* Generator (use G) and model (use M) of the hash / pickle life cycle of  *)
(* one node (C04): behaviours over                                         *)
(*    Build(proc, var)  (a second Build of the same var is the             *)
(*                       "independently rebuilt" object)                   *)
(*    Mutate1(obj, var) Hash(obj) Pickle(obj) Unpickle(blob, proc)         *)
(* with the step function of PtEq section 5.  Only state-changing events   *)
(* are enumerated; the harness appends the observation round (every object *)
(* hashed twice, every pair of one process compared) and the validation    *)
(* module judges the whole trace.  Every behaviour of exactly Depth events *)
(* is printed once as <<"LC", json>> (its prefixes are replayed with it).  *)
(* Canonical forms: processes are used in increasing order, an object is   *)
(* hashed at most once, an object is pickled at most once per cache state. *)
(***************************************************************************)
EXTENDS PtEq, Json

CONSTANTS NP, NV, Depth

VARIABLES s, hist, pk      \* pk: set of <<obj, cached>> already pickled

\* a hash may depend on the process (seed) and on the structure, never on identity
AbsHash(o) == ToString(<<o.proc, o.var>>)

Cand ==
       {[op |-> "build", proc |-> p, var |-> v] : p \in 1..NP, v \in 0..1}
  \cup {[op |-> "mutate", obj |-> i, var |-> v] : i \in DOMAIN s.objs, v \in 1..NV}
  \cup {[op |-> "hash", obj |-> i, h |-> AbsHash(s.objs[i])] :
           i \in {j \in DOMAIN s.objs : ~s.objs[j].cached}}
  \cup {[op |-> "pickle", obj |-> i] :
           i \in {j \in DOMAIN s.objs : <<j, s.objs[j].cached>> \notin pk}}
  \cup {[op |-> "unpickle", blob |-> b, proc |-> p] : b \in DOMAIN s.blobs, p \in 1..NP}

Init == s = LcInit /\ hist = <<>> /\ pk = {}
Next == /\ Len(hist) < Depth
        /\ \E ev \in Cand :
             /\ LcEnabled(s, ev, NP, NV)
             /\ s' = LcStep(s, ev)
             /\ hist' = Append(hist, ev)
             /\ pk' = IF ev.op = "pickle" THEN pk \cup {<<ev.obj, s.objs[ev.obj].cached>>}
                      ELSE pk

\* the model's own invariants (hasData = TRUE is the finer relation)
InvNoHashCacheAfterUnpickle == LcNoHashCacheAfterUnpickle(s)
InvEqualImpliesSameHash == LcEqualImpliesSameHash(s, TRUE) /\ LcEqualImpliesSameHash(s, FALSE)
\* an unpickled object starts without a cached hash whatever the source had
UnpickleDropsCache ==
  \A i \in DOMAIN s.objs : (s.objs[i].gen > 0 /\ s.objs[i].h = "") => ~s.objs[i].cached

Emit == Len(hist) = Depth => PrintT(<<"LC", ToJson(hist)>>)
=============================================================================
