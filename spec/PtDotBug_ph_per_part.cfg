CONSTANTS
  N = 3
  WithFn = TRUE
  TwoParts = TRUE
  Bug = "ph_per_part"
INIT Init
NEXT Next
INVARIANTS RefFaithful
CHECK_DEADLOCK FALSE
