------------------------------ MODULE PtCheck ------------------------------
(***************************************************************************)
(* Validation module (use E of DESIGN 2.1): every record of the batch was  *)
(* exported from the real implementation; TLC evaluates the specification's*)
(* semantics on it and prints exactly one verdict line per record:         *)
(*     <<"V", id, "ok">>   or   <<"V", id, "<first failing clause>">>      *)
(*                                                                         *)
(* rel = "eq":   graphs a and b have the same output names, and every      *)
(*               output has the same shape, dtype (optional), axes/tags    *)
(*               (optional) and, under each of the record's valuations,    *)
(*               the same value; no output of a is POISON (an access       *)
(*               outside an array) and all declared shapes follow the      *)
(*               specification's shape rules.                              *)
(* rel = "ne":   negative control: some output differs.                    *)
(***************************************************************************)
EXTENDS PtSem, Json, IOUtils

Batch == JsonDeserialize(IOEnv.BATCH_FILE)

VARIABLE r
Init == r \in 1..Len(Batch)
Next == UNCHANGED r

OutNames(g) == {g.outs[q].name : q \in DOMAIN g.outs}
OutNode(g, nm) == g.nodes[g.outs[CHOOSE q \in DOMAIN g.outs : g.outs[q].name = nm].node]
OutPos(g, nm) == g.outs[CHOOSE q \in DOMAIN g.outs : g.outs[q].name = nm].node

Has(rec, f) == f \in DOMAIN rec
Flag(rec, f) == Has(rec, f) /\ rec[f]

\* equality up to the exact / residue encoding (used for the NumPy oracle only)
SameMod(u, v) == /\ Len(u) = Len(v)
                 /\ \A j \in 1..Len(u) : u[j] < POISON /\ ToD(u[j]) = ToD(v[j])

EqClause(rec) ==
  LET a == rec.a b == rec.b nocast == Flag(rec, "nocast")
      names == OutNames(a)
  IN
  IF OutNames(b) # names \/ Len(a.outs) # Cardinality(names) \/ Len(b.outs) # Cardinality(names)
  THEN "names"
  ELSE IF \E nm \in names : OutNode(a, nm).shape # OutNode(b, nm).shape THEN "shape"
  ELSE IF Flag(rec, "dtype") /\ \E nm \in names : OutNode(a, nm).dtype # OutNode(b, nm).dtype
       THEN "dtype"
  ELSE IF Flag(rec, "meta") /\ \E nm \in names : OutNode(a, nm).meta # OutNode(b, nm).meta
       THEN "meta"
  ELSE IF ~ShapesOK(a) THEN "shaperule_a"
  ELSE IF ~ShapesOK(b) THEN "shaperule_b"
  ELSE LET bad(k) ==
             LET va == Val(a, rec.vals[k], nocast)
                 vb == Val(b, rec.vals[k], nocast)
             IN IF \E nm \in names : ~NoPoison(va[OutPos(a, nm)]) THEN "poison_a"
                ELSE IF \E nm \in names : ~NoPoison(vb[OutPos(b, nm)]) THEN "poison_b"
                ELSE IF \E nm \in names : va[OutPos(a, nm)] # vb[OutPos(b, nm)] THEN "value"
                ELSE IF Has(rec, "expect") /\
                        \E nm \in names : ~SameMod(va[OutPos(a, nm)], rec.expect[k][nm])
                     THEN "oracle"
                ELSE "ok"
           RECURSIVE First(_)
           First(k) == IF k > Len(rec.vals) THEN "ok"
                       ELSE LET c == bad(k) IN IF c # "ok" THEN c ELSE First(k + 1)
       IN First(1)

Clause(rec) ==
  CASE rec.rel = "eq" -> EqClause(rec)
    [] rec.rel = "ne" -> IF EqClause(rec) = "ok" THEN "equal_but_expected_different" ELSE "ok"

Verdict == PrintT(<<"V", Batch[r].id, Clause(Batch[r])>>)
=============================================================================
