------------------------------ MODULE PtCheck ------------------------------
(***************************************************************************)
(* Validation module (use E of DESIGN 2.1): every record of the batch was  *)
(* exported from the real implementation; TLC evaluates the specification's*)
(* semantics on it and prints exactly one verdict line per record:         *)
(*     <<"V", id, "ok">>   or   <<"V", id, "<first failing clause>">>      *)
(*                                                                         *)
(* rel = "eq":   graphs a and b have the same output names, and every      *)
(*               output has the same shape, dtype (optional), axes/tags    *)
(*               (optional) and, under each of the record's valuations,    *)
(*               the same value; no output of a is POISON (an access       *)
(*               outside an array) and all declared shapes follow the      *)
(*               specification's shape rules.                              *)
(* rel = "ne":   negative control: some output differs.                    *)
(***************************************************************************)
EXTENDS PtSem, Json, IOUtils

Batch == JsonDeserialize(IOEnv.BATCH_FILE)

VARIABLE r
Init == r \in 1..Len(Batch)
Next == UNCHANGED r

OutNames(g) == {g.outs[q].name : q \in DOMAIN g.outs}
OutNode(g, nm) == g.nodes[g.outs[CHOOSE q \in DOMAIN g.outs : g.outs[q].name = nm].node]
OutPos(g, nm) == g.outs[CHOOSE q \in DOMAIN g.outs : g.outs[q].name = nm].node

Has(rec, f) == f \in DOMAIN rec
Flag(rec, f) == Has(rec, f) /\ rec[f]

\* equality up to the exact / residue encoding (used for the NumPy oracle only)
SameMod(u, v) == /\ Len(u) = Len(v)
                 /\ \A j \in 1..Len(u) : u[j] < POISON /\ ToD(u[j]) = ToD(v[j])

EqClause(rec) ==
  LET a == rec.a b == rec.b nocast == Flag(rec, "nocast")
      names == OutNames(a)
  IN
  IF OutNames(b) # names \/ Len(a.outs) # Cardinality(names) \/ Len(b.outs) # Cardinality(names)
  THEN "names"
  ELSE IF \E nm \in names : OutNode(a, nm).shape # OutNode(b, nm).shape THEN "shape"
  ELSE IF Flag(rec, "dtype") /\ \E nm \in names : OutNode(a, nm).dtype # OutNode(b, nm).dtype
       THEN "dtype"
  ELSE IF Flag(rec, "meta") /\ \E nm \in names : OutNode(a, nm).meta # OutNode(b, nm).meta
       THEN "meta"
  ELSE IF ~ShapesOK(a) THEN "shaperule_a"
  ELSE IF ~ShapesOK(b) THEN "shaperule_b"
  ELSE LET bad(k) ==
             LET va == Val(a, rec.vals[k], nocast)
                 vb == Val(b, rec.vals[k], nocast)
             IN IF \E nm \in names : ~NoPoison(va[OutPos(a, nm)]) THEN "poison_a"
                ELSE IF \E nm \in names : ~NoPoison(vb[OutPos(b, nm)]) THEN "poison_b"
                \* (equality of the denoted numbers: an exact 0 and the residue of 0.0 are
                \* the same value; POISON was excluded above)
                ELSE IF \E nm \in names : ~SameMod(va[OutPos(a, nm)], vb[OutPos(b, nm)])
                     THEN "value"
                ELSE IF Has(rec, "expect") /\
                        \E nm \in names : ~SameMod(va[OutPos(a, nm)], rec.expect[k][nm])
                     THEN "oracle"
                ELSE "ok"
           RECURSIVE First(_)
           First(k) == IF k > Len(rec.vals) THEN "ok"
                       ELSE LET c == bad(k) IN IF c # "ok" THEN c ELSE First(k + 1)
       IN First(1)

(***************************************************************************)
(* Structural relations.  Every exported node carries loc (a digest of its *)
(* own fields with child positions abstracted away) and kids (its child    *)
(* positions in order of first occurrence); loc_nt / kids_nt are the same  *)
(* with all tags removed.  Class(g, k) is the smallest position that is    *)
(* structurally equal to k -- hash-consing done by TLC.                    *)
(***************************************************************************)
RECURSIVE ClassesUpTo(_, _, _)
ClassesUpTo(g, nt, k) ==
  IF k = 0 THEN <<>>
  ELSE LET prev == ClassesUpTo(g, nt, k - 1)
           loc(j)  == IF nt THEN g.nodes[j].loc_nt ELSE g.nodes[j].loc
           kids(j) == IF nt THEN g.nodes[j].kids_nt ELSE g.nodes[j].kids
           kc(j)   == [q \in 1..Len(kids(j)) |-> prev[kids(j)[q]]]
           same    == {j \in 1..(k - 1) : loc(j) = loc(k) /\ kc(j) = kc(k)}
       IN Append(prev, IF same = {} THEN k ELSE CHOOSE j \in same : \A z \in same : j <= z)
Classes(g, nt) == ClassesUpTo(g, nt, Len(g.nodes))

\* "nodup_data": no two data-wrapper nodes wrap the same buffer (address, shape,
\* strides, dtype) -- what deduplicate_data_wrappers documents; identical but
\* separately stored data may legitimately stay separate.
\* rel = "struct": rec.g one (combined) graph, rec.checks a sequence of check names,
\* rec.pairs a sequence of <<posA, posB>> that must be structurally equal
StructClause(rec) ==
  LET g == rec.g
      cls == Classes(g, FALSE)
      clsnt == Classes(g, TRUE)
      has(c) == \E q \in DOMAIN rec.checks : rec.checks[q] = c
  IN
  IF has("nodup") /\ \E k \in 1..Len(g.nodes) : cls[k] # k THEN "duplicate_nodes"
  ELSE IF has("same") /\ \E q \in DOMAIN rec.pairs : cls[rec.pairs[q][1]] # cls[rec.pairs[q][2]]
       THEN "not_structurally_equal"
  ELSE IF has("same_nt") /\ \E q \in DOMAIN rec.pairs :
             clsnt[rec.pairs[q][1]] # clsnt[rec.pairs[q][2]]
       THEN "differs_in_more_than_tags"
  ELSE IF has("nozero") /\ \E k \in 1..Len(g.nodes) : g.nodes[k].zc THEN "zero_call_left"
  ELSE IF has("lowered") /\ \E k \in 1..Len(g.nodes) : g.nodes[k].kind \notin {"il", "in", "lpres"}
       THEN "not_lowered"
  ELSE IF has("nodup_data") /\ \E j, k \in 1..Len(g.nodes) :
             /\ j < k /\ g.nodes[j].kind = "in" /\ g.nodes[k].kind = "in"
             /\ g.nodes[j].src = "dw" /\ g.nodes[k].src = "dw"
             /\ g.nodes[j].dbuf = g.nodes[k].dbuf
       THEN "duplicate_data_wrappers"
  ELSE "ok"

(***************************************************************************)
(* rel = "sliceeq": an index expression re-synthesised by a code generator *)
(* (rec.b, raw Python items as emitted in the generated source) selects    *)
(* the same elements, in the same order, as the index the user wrote       *)
(* (rec.a), on axes of the lengths rec.shape.  Items beyond Len(rec.b) are *)
(* full slices (trailing trivial slices may be dropped).                   *)
(***************************************************************************)
FullSlice == [t |-> "slice", start |-> <<>>, stop |-> <<>>, step |-> <<>>]
ItemOr(items, j) == IF j <= Len(items) THEN items[j] ELSE FullSlice
SliceEqClause(rec) ==
  LET n == Len(rec.shape)
      bad(j) ==
        LET a == ItemOr(rec.a, j) b == ItemOr(rec.b, j) len == rec.shape[j] IN
        IF a.t = "int" \/ b.t = "int" THEN
             ~(a.t = "int" /\ b.t = "int" /\ IntIndexValid(b.v, len)
               /\ IntIndexNorm(a.v, len) = IntIndexNorm(b.v, len))
        ELSE IF a.t = "slice" /\ b.t = "slice" THEN
             \/ (~IsNone(b.step) /\ OptVal(b.step) = 0)
             \/ SliceLen(a.start, a.stop, a.step, len) # SliceLen(b.start, b.stop, b.step, len)
             \/ \E t \in 0..(SliceLen(a.start, a.stop, a.step, len) - 1) :
                    SliceAt(a.start, a.step, len, t) # SliceAt(b.start, b.step, len, t)
        ELSE FALSE     \* index arrays are passed through by name
  IN IF Len(rec.b) > n THEN "too_many_items"
     ELSE IF \E j \in 1..n : bad(j) THEN "slice_differs" ELSE "ok"

(***************************************************************************)
(* rel = "mpms": the MPMS materialisation rule, as a specification.        *)
(* rec.a is the graph before, rec.b the graph after materialize_with_mpms  *)
(* (same node positions: the transformation changes only tags, which the   *)
(* "same_nt" relation checks separately); rec.outs are the output          *)
(* positions.  Documented rule: a node is materialised (tagged ImplStored) *)
(* iff it has more than one successor and more than one MATERIALISED       *)
(* predecessor; inputs, already stored nodes and outputs count as          *)
(* materialised without being tagged.  Implemented refinement (modelled,   *)
(* not idealised): a successor that is an indexing node n times larger     *)
(* than the node counts n times.                                           *)
(***************************************************************************)
RECURSIVE CountIn(_, _)
CountIn(s, x) == IF s = <<>> THEN 0 ELSE (IF Head(s) = x THEN 1 ELSE 0) + CountIn(Tail(s), x)

NSucc(g, n) ==
  LET w(k) == IF g.nodes[k].kind = "index"
              THEN (IF SizeOf(g.nodes[n].shape) = 0 THEN 0
                    ELSE SizeOf(g.nodes[k].shape) \div SizeOf(g.nodes[n].shape))
              ELSE 1
      RECURSIVE S(_)
      S(k) == IF k > Len(g.nodes) THEN 0
              ELSE CountIn(g.nodes[k].kidlist, n) * w(k) + S(k + 1)
  IN S(n + 1)

AlreadyMat(g, outs, n) ==
  \/ g.nodes[n].kind = "in"
  \/ g.nodes[n].stored
  \/ \E q \in DOMAIN outs : outs[q] = n

RECURSIVE MPMSUpTo(_, _, _)
\* -> sequence of records [mp |-> set of materialised predecessor positions, mat |-> BOOLEAN]
MPMSUpTo(g, outs, k) ==
  IF k = 0 THEN <<>>
  ELSE LET prev == MPMSUpTo(g, outs, k - 1)
           kids == {g.nodes[k].kidlist[q] : q \in DOMAIN g.nodes[k].kidlist}
           mps  == UNION {prev[c].mp : c \in kids}
       IN IF AlreadyMat(g, outs, k) THEN Append(prev, [mp |-> {k}, mat |-> FALSE])
          ELSE IF g.nodes[k].kind \in {"alias", "ncr"} THEN Append(prev, [mp |-> mps, mat |-> FALSE])
          \* a node the user tagged ImplInlined / ImplSubstitution keeps that choice
          ELSE IF NSucc(g, k) > 1 /\ Cardinality(mps) > 1 /\ ~g.nodes[k].implother
               THEN Append(prev, [mp |-> {k}, mat |-> TRUE])
          ELSE Append(prev, [mp |-> mps, mat |-> FALSE])

MPMSClause(rec) ==
  LET a == rec.a b == rec.b
      plan == MPMSUpTo(a, rec.outs, Len(a.nodes))
  IN IF Len(a.nodes) # Len(b.nodes) THEN "node_count_changed"
     ELSE IF \E k \in 1..Len(a.nodes) : plan[k].mat /\ ~b.nodes[k].stored
          THEN "mpms_node_not_materialised"
     ELSE IF \E k \in 1..Len(a.nodes) :
               ~plan[k].mat /\ b.nodes[k].stored /\ ~a.nodes[k].stored
          THEN "materialised_without_mpms"
     ELSE "ok"

Clause(rec) ==
  CASE rec.rel = "eq" -> EqClause(rec)
    [] rec.rel = "mpms" -> MPMSClause(rec)
    [] rec.rel = "sliceeq" -> SliceEqClause(rec)
    [] rec.rel = "struct" -> StructClause(rec)
    [] rec.rel = "ne" -> IF EqClause(rec) = "ok" THEN "equal_but_expected_different" ELSE "ok"

Verdict == PrintT(<<"V", Batch[r].id, Clause(Batch[r])>>)
=============================================================================
