------------------------------- MODULE PtEqGen -------------------------------
(***************************************************************************)
(* Generator (use G) of the families of C04 / C18: for every node kind and *)
(* every context (the kind itself; the kind lifted / put under a parent    *)
(* through every edge kind; under two nested edges) the members            *)
(*   base, independently rebuilt, a foreign object, pickled-and-restored   *)
(*   in this / from another process, mapping fields in another insertion   *)
(*   order, and for EVERY field of Fields[kind] the kind with exactly that *)
(*   field changed,                                                        *)
(* with the verdict matrices predicted by EqM (PtEq section 2) for the     *)
(* three notions ident (C04), canon and strict (C18).                      *)
(* One initial state per case; each prints one line <<"CASE", json>>.      *)
(***************************************************************************)
EXTENDS PtEq, Json, SequencesExt

CONSTANT AllPairs      \* TRUE: every pair of nested edges; FALSE: a rotation

\* how a child array is referenced by a parent array (edge kinds)
EdgeSeq == <<"IndexLambda.bindings", "IndexLambda.shape", "Stack.arrays",
             "Concatenate.arrays", "Roll.array", "AxisPermutation.array",
             "Reshape.array", "Reshape.newshape", "BasicIndex.array",
             "BasicIndex.indices.slice", "AdvancedIndexInContiguousAxes.indices",
             "AdvancedIndexInNoncontiguousAxes.indices", "Einsum.args",
             "DictOfNamedArrays._data", "Call.bindings", "FunctionDefinition.returns",
             "LoopyCall.bindings", "DistributedSend.data",
             "DistributedSendRefHolder.passthrough_data", "CSRMatmul.array",
             "CSRMatrix.elem_values", "CSRMatrix.row_starts", "Placeholder.shape">>
Edges == {EdgeSeq[q] : q \in DOMAIN EdgeSeq}
EdgeIdx(e) == CHOOSE q \in DOMAIN EdgeSeq : EdgeSeq[q] = e
NextEdge(e) == EdgeSeq[(EdgeIdx(e) % Len(EdgeSeq)) + 1]

\* how a non-array kind becomes (part of) an array
Lifts(k) ==
  CASE k = "DictOfNamedArrays"  -> {"NamedArray._container"}
    [] k = "Call"               -> {"NamedCallResult._container"}
    [] k = "LoopyCall"          -> {"LoopyCallResult._container"}
    [] k = "FunctionDefinition" -> {"Call.function"}
    [] k = "DistributedSend"    -> {"DistributedSendRefHolder.send"}
    [] k = "CSRMatrix"          -> {"CSRMatmul.matrix"}
    [] k = "Axis"               -> {"Placeholder.axes", "IndexLambda.axes"}
    [] k = "ReductionDescriptor" -> {"IndexLambda.var_to_reduction_descr",
                                     "Einsum.redn_axis_to_redn_descr",
                                     "CSRMatmul.reduction_descr"}

Pairs == IF AllPairs THEN Edges \X Edges
         ELSE {<<e, NextEdge(e)>> : e \in Edges} \cup {<<e, "Stack.arrays">> : e \in Edges}

Ctxs(k) ==
  IF k \in ArrayKinds
  THEN {<<>>} \cup {<<e>> : e \in Edges} \cup {<<p[1], p[2]>> : p \in Pairs}
  ELSE {<<>>} \cup {<<l>> : l \in Lifts(k)}
       \cup {<<p[1], p[2]>> : p \in Lifts(k) \X Edges}

Cases == {[kind |-> k, ctx |-> x] : <<k, x>> \in
             UNION {{<<k2, x2>> : x2 \in Ctxs(k2)} : k2 \in Kinds}}

Members(k) == MemberNames(k) \o
              [q \in 1..Cardinality(FieldNames(k)) |->
                   "mut:" \o SetToSeq(FieldNames(k))[q]]

Matrix(k, mode) == LET ms == Members(k) IN
  [i \in DOMAIN ms |-> [j \in DOMAIN ms |-> EqM(k, mode, ms[i], ms[j])]]

VARIABLE c
Init == c \in Cases
Next == UNCHANGED c

\* model-level sanity: each predicted relation is an equivalence, and they refine
\* each other (strict => canon; ident => canon)
IsEquivalence(M) ==
  /\ \A i \in DOMAIN M : M[i][i]
  /\ \A i, j \in DOMAIN M : M[i][j] = M[j][i]
  /\ \A i, j, l \in DOMAIN M : (M[i][j] /\ M[j][l]) => M[i][l]
ModelOK == c.ctx # <<>> \/
  LET a == Matrix(c.kind, "ident") b == Matrix(c.kind, "canon")
      s == Matrix(c.kind, "strict") IN
  /\ IsEquivalence(a) /\ IsEquivalence(b) /\ IsEquivalence(s)
  /\ \A i, j \in DOMAIN a : (a[i][j] => b[i][j]) /\ (s[i][j] => b[i][j])

\* the predicted matrices depend on the kind only: printed with the bare kind
Emit == IF c.ctx = <<>>
        THEN PrintT(<<"KIND", ToJson([kind |-> c.kind, members |-> Members(c.kind),
                                      ident |-> Matrix(c.kind, "ident"),
                                      canon |-> Matrix(c.kind, "canon"),
                                      strict |-> Matrix(c.kind, "strict")])>>)
             /\ PrintT(<<"CASE", ToJson([kind |-> c.kind, ctx |-> c.ctx])>>)
        ELSE PrintT(<<"CASE", ToJson([kind |-> c.kind, ctx |-> c.ctx])>>)

\* the field table, printed once (read by the harness for the reflective check)
ASSUME PrintT(<<"FIELDS", ToJson(FieldTable)>>)
=============================================================================
