CONSTANTS
  MaxEpoch = 2
  CopyMemo = FALSE
INIT EInit
NEXT ENext
INVARIANT EReport
CHECK_DEADLOCK FALSE
