CONSTANTS
  N = 4
  T = 2
  WithMay = FALSE
  WithRedn = FALSE
INIT Init
NEXT Next
INVARIANTS AllInvariants MovesFromHere
CHECK_DEADLOCK FALSE
