INIT TraceInit
NEXT TraceSpecNext
INVARIANT Verdict
CHECK_DEADLOCK FALSE
