----------------------------- MODULE PtDotCheck -----------------------------
(***************************************************************************)
(* Validation module (use E) of X02.  Every record was exported from one   *)
(* real run of a renderer:                                                 *)
(*   kind "dot"    rec.src the source S (reflective walk over the graph /  *)
(*                 the partition object), rec.dot the abstract rendering   *)
(*                 read off the DOT text that get_dot_graph /              *)
(*                 get_dot_graph_from_partition returned                   *)
(*   kind "fancy"  rec.src a plain DAG with node categories, rec.dot the   *)
(*                 rendering read off show_fancy_placeholder_data_flow's   *)
(*                 DOT text (PtDotFancy)                                   *)
(*   kind "repr"   rec.src a DAG, rec.tree the term tree parsed from       *)
(*                 repr(array) (PtRepr)                                    *)
(* TLC evaluates the specification on the record and prints one verdict:   *)
(*     <<"V", id, "ok">>  or  <<"V", id, "<first failing clause>">>        *)
(***************************************************************************)
EXTENDS PtDot, PtDotFancy, PtRepr, Json, IOUtils

Batch == JsonDeserialize(IOEnv.BATCH_FILE)

VARIABLE r
Init == r \in 1..Len(Batch)
Next == UNCHANGED r

ClauseOf(rec) ==
  CASE rec.kind = "dot" -> Clause(rec.src, rec.dot)
    [] rec.kind = "fancy" -> FancyClause(rec.src, rec.dot)
    [] rec.kind = "repr" -> ReprClause(rec.src, rec.tree, rec.depth)

Verdict == PrintT(<<"V", Batch[r].id, ClauseOf(Batch[r])>>)
=============================================================================
